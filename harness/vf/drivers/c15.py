"""C15 - table interpolation is exact on nodes, reproduces its polynomial degree, and raises exactly outside the grid.

Spec: spec/mech/Interp.tla.  TLC enumerates scenarios (grid of any sign pattern x integer polynomial table of the
class a method reproduces x query point {node, cell midpoint / quarter point, boundary, just outside} x extrapolate),
checks the laws ErrorIff / NodeLaw / DerivLaw / HatLaw and exports for each scenario the exact rational outcome
(error or f(x)), the exact gradient and (multilinear tables) the slinear hat weights.  Every exported scenario is
executed on the real InterpND (each table method that provably reproduces the class, every method at nodes, the
fixed-dimension variants against the general ones, single-point and vectorised calls) and, for a rotating subset,
through MetaModelStructuredComp in a Problem and (in-bounds points, the full grid as training points) through
MetaModelSemiStructuredComp.  On evenly spaced axes Akima's interpolant also has to reproduce tensor quadratics inside
the grid (Interp.tla Uniform / AkQuadLaw).

Histories (spec/mech/InterpHist.tla): every sequence of two queries (thorough: plus a sample of three) over
{interpolate, interpolate with derivative} x {point A, second point B = a node, batches [A,B], [B,A]} is replayed on ONE
InterpND per method for a reduced scenario base; the law ReturnsRequested (every query returns the quantities of its
own argument) is model checked on the reference cache discipline, and bound as: the value returned in a history equals
the value a fresh object returns (and the exact one where the method reproduces the table / at the node B).

This module also holds what C16 (drivers/c16.py) shares: the TLC configuration, the scenario decoding and the
independent fractions.Fraction reference that cross-checks the spec's numbers (a disagreement is a machinery error)."""
import collections
import json
import os
import random
from fractions import Fraction as F

from ..tlc import MachineryError
from ..util import pmap

RTOL = 1e-9
ATOL = 1e-9
SCALE_TOL = 1e-11

# method -> (minimum points per axis, fixed dimension or None, general counterpart or None)
METHODS = collections.OrderedDict([
    ('slinear', (2, None, None)),
    ('lagrange2', (3, None, None)),
    ('lagrange3', (4, None, None)),
    ('akima', (4, None, None)),
    ('cubic', (4, None, None)),
    ('scipy_slinear', (2, None, None)),
    ('scipy_cubic', (2, None, None)),        # automatic order reduction: never rejects
    ('scipy_quintic', (2, None, None)),
    ('1D-slinear', (2, 1, 'slinear')),
    ('2D-slinear', (2, 2, 'slinear')),
    ('3D-slinear', (2, 3, 'slinear')),
    ('1D-lagrange2', (3, 1, 'lagrange2')),
    ('2D-lagrange2', (3, 2, 'lagrange2')),
    ('3D-lagrange2', (3, 3, 'lagrange2')),
    ('1D-lagrange3', (4, 1, 'lagrange3')),
    ('2D-lagrange3', (4, 2, 'lagrange3')),
    ('3D-lagrange3', (4, 3, 'lagrange3')),
    ('1D-akima', (4, 1, 'akima')),
])
DEG = {'lin': 1, 'quad': 2, 'cub': 3}


def reproduced_degree(method, npts, uniform=False):
    """Per-axis polynomial degree the method provably reproduces on a grid with `npts` points per axis (uniform: every
    axis is evenly spaced; there Akima's interpolant reproduces tensor quadratics INSIDE the grid, Interp.tla
    Uniform / AkQuadLaw - the caller restricts that case to in-bounds points).

    slinear / akima / natural cubic spline: 1 (piecewise linear; Akima's slopes of collinear data are the common
    slope; the natural spline of collinear data has zero second derivatives).  lagrange2 / lagrange3: 2 / 3 (the
    interpolating polynomial through 3 / 4 nodes is unique).  scipy_*: make_interp_spline of order k is the unique
    interpolating spline of degree k, and polynomials of degree <= k are in the spline space; the order is reduced
    to n-1 on an axis with n <= k points."""
    base = method.split('-')[-1]
    if base == 'akima':
        return 2 if uniform else 1
    if base in ('slinear', 'cubic', 'scipy_slinear'):
        return 1
    if base == 'lagrange2':
        return 2
    if base == 'lagrange3':
        return 3
    if base == 'scipy_cubic':
        return min(min(3, n - 1) if n <= 3 else 3 for n in npts)
    if base == 'scipy_quintic':
        return min(min(5, n - 1) if n <= 5 else 5 for n in npts)
    raise MachineryError('unknown method %s' % method)


def nproc():
    return max(1, min(int(os.environ.get('VERIF_NPROC', '16')), os.cpu_count() or 1))


# ---- spec side -------------------------------------------------------------------------------------------------
def write_cfg(ctx, name, dims, npoly, all1d, nrep, nrep3, full2d, interior, exset, exfull=True, laws=True,
              histpos=False, bkind='none', akima=None):
    """akima=(AkMod, AkRem): the configuration of the Akima-with-smoothing family (INIT InitAk) instead"""
    tb = lambda b: 'TRUE' if b else 'FALSE'      # noqa: E731
    txt = '''CONSTANTS
  Dims = {%s}
  NPoly = %d
  AllGrids1D = %s
  NRep = %d
  NRep3 = %d
  FullPos2D = %s
  InteriorOnly = %s
  ExFull = %s
  ExSet = {%s}
  HistPos = %s
  BKind = "%s"
  AkMod = %d
  AkRem = %d
''' % (', '.join(str(d) for d in dims), npoly, tb(all1d), nrep, nrep3, tb(full2d), tb(interior), tb(exfull),
       ', '.join(tb(b) for b in exset), tb(histpos), bkind, akima[0] if akima else 1, akima[1] if akima else 0)
    if akima:
        return ctx.write_cfg(name, txt + 'INIT InitAk\nNEXT NextAk\nINVARIANT AkLaw\nINVARIANT AkQuadLaw\nINVARIANT ExportAk\n')
    txt += 'INIT Init\nNEXT Next\n'
    if laws:
        txt += ''.join('INVARIANT %s\n' % i for i in ('GridsOk', 'ErrorIff', 'NodeLaw', 'DerivLaw', 'HatLaw', 'BLaw'))
    txt += 'INVARIANT Export\n'
    return ctx.write_cfg(name, txt)


def fr(x):
    return F(x[0], x[1])


def exps(k, dim, deg):
    """exponent tuple of flat coefficient index k (0-based); axis 1 varies fastest (Interp.tla Exp)."""
    return tuple((k // (deg + 1) ** i) % (deg + 1) for i in range(dim))


def poly_eval(s, x):
    dim, deg = s['dim'], s['deg']
    tot = F(0)
    for k, c in enumerate(s['c']):
        t = F(c)
        for i, e in enumerate(exps(k, dim, deg)):
            t *= x[i] ** e
        tot += t
    return tot


def poly_grad(s, x):
    dim, deg = s['dim'], s['deg']
    g = [F(0)] * dim
    for k, c in enumerate(s['c']):
        es = exps(k, dim, deg)
        for j in range(dim):
            if es[j] == 0:
                continue
            t = F(c) * es[j] * x[j] ** (es[j] - 1)
            for i, e in enumerate(es):
                if i != j:
                    t *= x[i] ** e
            g[j] += t
    return g


def hat_ref(g, x):
    """piecewise-linear (hat function) weights of every node of the 1-D grid g at x (end cells when outside)."""
    n = len(g)
    k = 0 if x < g[0] else (n - 2 if x >= g[-1] else max(i for i in range(n - 1) if g[i] <= x))
    w = [F(0)] * n
    w[k] = F(g[k + 1] - x) / (g[k + 1] - g[k])
    w[k + 1] = F(x - g[k]) / (g[k + 1] - g[k])
    return w


def table_of(s):
    """The table (exact Python ints) as a nested numpy object array -> float array of shape (n1, .., nd)."""
    import itertools
    import numpy as np
    shape = tuple(len(g) for g in s['g'])
    t = np.zeros(shape)
    for idx in itertools.product(*[range(n) for n in shape]):
        t[idx] = float(poly_eval(s, [F(s['g'][i][idx[i]]) for i in range(s['dim'])]))
    return t


def point_of(s):
    return [F(X, s['R']) for X in s['X']]


def crosscheck(e):
    """The spec's expectation must equal the independent Fraction reference (else the oracle is broken)."""
    s, o = e['s'], e['o']
    x = point_of(s)
    inb = all(s['g'][i][0] <= x[i] <= s['g'][i][-1] for i in range(s['dim']))
    if o['inb'] != inb or o['err'] != ((not s['ex']) and not inb):
        raise MachineryError('spec / reference disagree on bounds: %s' % json.dumps(e)[:400])
    if o['uni'] != all(len({g[i + 1] - g[i] for i in range(len(g) - 1)}) == 1 for g in s['g']):
        raise MachineryError('spec / reference disagree on even spacing: %s' % json.dumps(e)[:400])
    if o['err']:
        return
    if fr(o['v']) != poly_eval(s, x) or [fr(d) for d in o['d']] != poly_grad(s, x):
        raise MachineryError('spec / reference disagree on value or gradient: %s' % json.dumps(e)[:400])
    if o.get('b'):
        xb = [F(X, s['R']) for X in o['b']['X']]
        if fr(o['b']['v']) != poly_eval(s, xb) or [fr(d) for d in o['b']['d']] != poly_grad(s, xb) or \
                not all(s['g'][i][0] <= xb[i] <= s['g'][i][-1] for i in range(s['dim'])):
            raise MachineryError('spec / reference disagree on the second point: %s' % json.dumps(e)[:400])
    if s['cls'] == 'lin':
        ref = [hat_ref(s['g'][i], x[i]) for i in range(s['dim'])]
        if [[fr(w) for w in ax] for ax in o['w']] != ref:
            raise MachineryError('spec / reference disagree on hat weights: %s' % json.dumps(e)[:400])
    elif o['w']:
        raise MachineryError('hat weights exported for a non-multilinear table')


def group_key(s):
    return json.dumps([s['dim'], s['cls'], s['p'], s['ex'], s['g']])


def group(exports):
    """[(header scenario, [export, ...])] grouped by (grid, table, extrapolate), deterministic order."""
    gs = collections.OrderedDict()
    for e in sorted(exports, key=lambda e: (group_key(e['s']), json.dumps(e['s']['pos'], sort_keys=True))):
        gs.setdefault(group_key(e['s']), []).append(e)
    return [(es[0]['s'], es) for es in gs.values()]


def run_tlc(ctx, cfg, timeout=2400):
    r = ctx.tlc_check('mech/Interp', cfg, workers=nproc(), timeout=timeout, heap='12g')
    ctx.require_actions(['Choose'])
    ex = r.exports('EXP')
    if not ex:
        raise MachineryError('no scenarios exported')
    for e in ex:
        crosscheck(e)
    return r, ex


def close(obs, want, scale=0.0):
    """comparison of two observed numbers that depend on a table of magnitude `scale`"""
    return abs(obs - want) <= ATOL + RTOL * max(abs(want), scale)


def close_exact(obs, want, scale):
    """comparison with the spec's exact rational: 1e-9 absolute + 1e-9 relative, plus round-off of the operands
    (1e-11 of the largest table entry: the 64-term sums of 3D-lagrange3 on cubic tables of magnitude 5e5 that cancel to
    O(1) were observed at 2e-13 of that magnitude)"""
    return abs(obs - want) <= ATOL + RTOL * abs(want) + SCALE_TOL * scale


# ---- implementation side ------------------------------------------------------------------------------------------
def methods_for(dim):
    return [m for m, (k, fd, gen) in METHODS.items() if fd is None or fd == dim]


def make_interp(method, s, table, ex):
    import numpy as np
    from openmdao.components.interp_util.interp import InterpND
    pts = tuple(np.array(g, dtype=float) for g in s['g'])
    return InterpND(method=method, points=pts, values=np.array(table, dtype=float), extrapolate=ex)


def call_single(it, x):
    """-> ('v', float) | ('oob', axis) | ('exc', 'Type: message')"""
    import numpy as np
    from openmdao.components.interp_util.outofbounds_error import OutOfBoundsError
    try:
        v = it.interpolate(np.array([x], dtype=float))
        return ('v', float(np.asarray(v).ravel()[0]))
    except OutOfBoundsError as e:
        return ('oob', int(e.idx))
    except Exception as e:      # noqa: BLE001  (the kind of exception is the observation)
        return ('exc', '%s: %s' % (type(e).__name__, str(e)[:120]))


def make_mm(method, s, table, ex):
    import numpy as np
    import openmdao.api as om
    p = om.Problem()
    c = om.MetaModelStructuredComp(method=method, extrapolate=ex, vec_size=1)
    for i, g in enumerate(s['g']):
        c.add_input('x%d' % i, 0.0, training_data=np.array(g, dtype=float))
    c.add_output('f', 0.0, training_data=np.array(table, dtype=float))
    p.model.add_subsystem('mm', c, promotes=['*'])
    p.setup()
    p.final_setup()
    return p


def call_mm(p, x):
    from openmdao.core.analysis_error import AnalysisError
    try:
        for i, xi in enumerate(x):
            p.set_val('x%d' % i, xi)
        p.run_model()
        return ('v', float(p.get_val('f')[0]))
    except AnalysisError as e:
        return ('oob', str(e)[:160])
    except Exception as e:      # noqa: BLE001
        return ('exc', '%s: %s' % (type(e).__name__, str(e)[:120]))


def applicable(method, s):
    """-> 'ok' | 'rejected' (the method itself refuses the grid: fewer points than it needs on some axis)"""
    k = METHODS[method][0]
    return 'ok' if all(len(g) >= k for g in s['g']) else 'rejected'


def check_group(item):
    """Execute one (grid, table, extrapolate) group; returns counters and the failures per scenario index."""
    import numpy as np
    from ..util import quiet
    quiet()
    s0, pts, do_mm, poss, uni, do_semi = item
    dim, cls, ex = s0['dim'], s0['cls'], s0['ex']
    table = table_of(s0)
    scale = float(np.max(np.abs(table)))
    npts = [len(g) for g in s0['g']]
    fails = collections.defaultdict(list)          # scenario index -> [(method, via, observed, clause)]
    cnt = collections.Counter()
    vals = {}
    vvals = {}
    mm_methods = set(['slinear', 'lagrange2', 'lagrange3', 'akima', 'cubic', 'scipy_cubic',
                      '%dD-slinear' % dim, '%dD-lagrange2' % dim, '%dD-lagrange3' % dim, '1D-akima']) if do_mm else set()
    partners = set(g for (k, fd, g) in METHODS.values() if g)
    for m in methods_for(dim):
        if applicable(m, s0) != 'ok':
            cnt['rejected_grid'] += 1
            if METHODS[m][1] is None:
                # a general method must refuse the grid itself (that is what makes skipping it legitimate)
                try:
                    make_interp(m, s0, table, ex)
                    cnt['below_minimum_but_accepted'] += 1
                except ValueError:
                    cnt['rejected_by_method'] += 1
            continue
        repro_out = reproduced_degree(m, npts) >= DEG[cls]            # ... also when extrapolating
        repro_in = reproduced_degree(m, npts, uni) >= DEG[cls]        # ... inside the grid
        it = make_interp(m, s0, table, ex)
        mv = vals[m] = {}
        todo = []
        for j, (x, want, err, inb, allnode) in enumerate(pts):
            repro = repro_in if inb else repro_out
            if not (err or repro or allnode or METHODS[m][2] or m in partners):
                continue
            todo.append(j)
            r = call_single(it, x)
            kind = r[0]
            if kind != 'v' or err or not np.isfinite(r[1]):
                # confirm on a fresh object so that the observation does not depend on the bracket cache
                r = call_single(make_interp(m, s0, table, ex), x)
                kind = r[0]
            cnt['calls'] += 1
            if err:
                if kind != 'oob':
                    fails[j].append((m, 'InterpND.interpolate', r, 'point outside the grid, extrapolate=False: '
                                     'OutOfBoundsError expected'))
                continue
            if kind != 'v':
                fails[j].append((m, 'InterpND.interpolate', r, 'no error expected (point inside the grid or '
                                 'extrapolate=True)'))
                continue
            mv[j] = r[1]
            if repro or allnode:
                cnt['compared'] += 1
                if not close_exact(r[1], want, scale):
                    r2 = call_single(make_interp(m, s0, table, ex), x)
                    fails[j].append((m, 'InterpND.interpolate', {'sequence': r, 'fresh_object': r2},
                                     'table value at a node' if allnode else
                                     ('polynomial of the reproduced class' if inb else 'extrapolated polynomial')))
        # vectorised call on a fresh object: every point that must not raise, in one array (if the whole batch
        # raises, the points whose single-point call already failed are taken out and the rest is tried again)
        ok = [j for j in todo if not pts[j][2]]
        for attempt in (0, 1):
            if len(ok) < 2:
                break
            try:
                vb = np.asarray(make_interp(m, s0, table, ex).interpolate(
                    np.array([pts[j][0] for j in ok], dtype=float))).ravel()
            except Exception as e:      # noqa: BLE001
                rest = [j for j in ok if j in mv]
                if attempt == 0 and len(rest) < len(ok):
                    ok = rest
                    continue
                for j in ok:
                    fails[j].append((m, 'InterpND.interpolate(vectorised)',
                                     ('exc', '%s: %s' % (type(e).__name__, str(e)[:120])),
                                     'no error expected (every point of the batch may be evaluated)'))
                break
            cnt['calls'] += 1
            cnt['vectorised_points'] += len(ok)
            vvals[m] = {}
            for j, v in zip(ok, vb):
                x, want, err, inb, allnode = pts[j]
                repro = repro_in if inb else repro_out
                v = float(v)
                vvals[m][j] = v
                if repro or allnode:
                    cnt['compared'] += 1
                    if not close_exact(v, want, scale):
                        fails[j].append((m, 'InterpND.interpolate(vectorised)', ('v', v),
                                         'table value at a node' if allnode else
                                         ('polynomial of the reproduced class' if inb else 'extrapolated polynomial')))
                elif inb and j in mv and not any(p_.get('kd') == 'node' for p_ in poss[j]):
                    cnt['compared'] += 1
                    if not close(v, mv[j], scale):
                        fails[j].append((m, 'InterpND.interpolate(vectorised)', {'vectorised': v, 'single': mv[j]},
                                         'vectorised and single-point evaluation of the same table differ'))
            break
        if m in mm_methods:
            try:
                p = make_mm(m, s0, table, ex)
            except Exception as e:      # noqa: BLE001
                p = None
                fails[0].append((m, 'MetaModelStructuredComp.setup', ('exc', '%s: %s' % (type(e).__name__, str(e)[:120])),
                                 'component setup on a grid the method accepts'))
            for j, (x, want, err, inb, allnode) in enumerate(pts):
                repro = repro_in if inb else repro_out
                if p is None or not (err or repro or allnode):
                    continue
                r = call_mm(p, x)
                cnt['calls'] += 1
                cnt['mm_calls'] += 1
                if err:
                    if r[0] != 'oob':
                        fails[j].append((m, 'MetaModelStructuredComp', r, 'point outside the grid, extrapolate=False: '
                                         'AnalysisError expected'))
                elif r[0] != 'v':
                    fails[j].append((m, 'MetaModelStructuredComp', r, 'no error expected (point inside the grid or '
                                     'extrapolate=True)'))
                else:
                    cnt['compared'] += 1
                    if not close_exact(r[1], want, scale):
                        fails[j].append((m, 'MetaModelStructuredComp', r, 'table value at a node' if allnode else
                                         'polynomial of the reproduced class'))
    if do_semi:
        check_semi(s0, pts, table, scale, npts, uni, fails, cnt)
    # fixed-dimension variants (single-point and vectorised path) agree with the general method on every table,
    # inside the grid
    for m, (k, fd, gen) in METHODS.items():
        if fd != dim or gen not in vals:
            continue
        for via, mine in (('InterpND.interpolate', vals.get(m, {})), ('InterpND.interpolate(vectorised)', vvals.get(m, {}))):
            for j, v in mine.items():
                if j in vals[gen] and pts[j][3]:
                    cnt['compared'] += 1
                    cnt['fixed_vs_general'] += 1
                    if not close(v, vals[gen][j], scale):
                        fails[j].append((m, via, {m: v, gen: vals[gen][j]},
                                         'fixed-dimension variant differs from the general method'))
    return dict(cnt), dict(fails)


# ---- histories of queries on one object (spec/mech/InterpHist.tla) --------------------------------------------------
NEAR = 2.0 ** -20      # the nudge of point "An" (first axis); A is at least 1/4 away from every node
HTOL = 1e-12           # a history-free object performs the same arithmetic: agreement up to round-off noise


def write_hist_cfg(ctx, name, ops, near, hlen, discipline='exact_and_flag', laws=True):
    txt = '''CONSTANTS
  Ops = {%s}
  WithNear = %s
  HLen = %d
  Discipline = "%s"
INIT Init
NEXT Next
''' % (', '.join('"%s"' % o for o in ops), 'TRUE' if near else 'FALSE', hlen, discipline)
    if laws:
        txt += 'INVARIANT TypeOk\nINVARIANT CacheSound\nINVARIANT ReturnsRequested\n'
    txt += 'INVARIANT Export\n'
    return ctx.write_cfg(name, txt)


def run_hist_tlc(ctx, ops, near, hlen, refute=True):
    """-> the histories of InterpHist.tla (reference cache discipline, laws checked).  The two faulty disciplines
    are run as well and TLC has to refute them (else the law has no teeth: machinery error)."""
    cfg = write_hist_cfg(ctx, 'InterpHist.cfg', ops, near, hlen)
    r = ctx.tlc_check('mech/InterpHist', cfg, workers=2, timeout=600, heap='2g')
    ctx.require_actions(['Call'])
    hists = r.exports('HIST')
    nargs = 5 if near else 4
    if len(hists) != (len(ops) * nargs) ** hlen:
        raise MachineryError('InterpHist: %d histories exported, %d expected' % (len(hists), (len(ops) * nargs) ** hlen))
    if refute:
        for disc in ('point', 'close'):
            if disc == 'close' and not near:
                continue
            cfg = write_hist_cfg(ctx, 'InterpHist_%s.cfg' % disc, ['val', 'valD', 'grad'], True, 2, disc)
            rr = ctx.tlc_run('mech/InterpHist', cfg, workers=1, timeout=600, heap='2g')
            if 'ReturnsRequested' not in rr.violated:
                raise MachineryError('InterpHist: the faulty cache discipline %r is not refuted by ReturnsRequested:\n%s'
                                     % (disc, rr.tail(30)))
    return [[(c['op'], tuple(c['arg'])) for c in h] for h in hists]


def hist_points(s, o):
    a = [float(v) for v in point_of(s)]
    b = [float(F(X, s['R'])) for X in o['b']['X']]
    an = list(a)
    an[0] += NEAR
    return {'A': a, 'B': b, 'An': an}


def do_call(it, op, X):
    """one query -> ('ok', values or None, gradients (k, dim) or None) | ('exc', text); results are copies"""
    import numpy as np
    k, dim = X.shape
    try:
        if op == 'val':
            return ('ok', np.array(it.interpolate(X.copy()), dtype=float).ravel(), None)
        if op == 'valD':
            v, d = it.interpolate(X.copy(), compute_derivative=True)
            return ('ok', np.array(v, dtype=float).ravel(), np.array(d, dtype=float).reshape(k, dim))
        return ('ok', None, np.array(it.gradient(X.copy()), dtype=float).reshape(k, dim))
    except Exception as e:      # noqa: BLE001  (the kind of exception is the observation)
        return ('exc', '%s: %s' % (type(e).__name__, str(e)[:120]))


def hist_group(item):
    """Replay every history on every applicable method of one scenario.  judge = 'val' (C15: returned values) or
    'grad' (C16: returned gradients).  -> (counters, [(history, call index, method, via, observed, clause)])"""
    import numpy as np
    from ..util import quiet
    quiet()
    s, o, hists, judge, methods = item
    dim, cls = s['dim'], s['cls']
    table = table_of(s)
    scale = float(np.max(np.abs(table)))
    npts = [len(g) for g in s['g']]
    P = hist_points(s, o)
    exact = {'A': (float(fr(o['v'])), [float(fr(d)) for d in o['d']]),
             'B': (float(fr(o['b']['v'])), [float(fr(d)) for d in o['b']['d']])}
    bnode = all(p_['kd'] == 'node' for p_ in o['b']['pos'])
    cnt = collections.Counter()
    fails = []
    calls = sorted(set(c for h in hists for c in h))
    X = {arg: np.array([P[p_] for p_ in arg], dtype=float) for (_, arg) in calls}
    tol = HTOL * (1.0 + scale)
    for m in methods:
        if applicable(m, s) != 'ok':
            cnt['rejected_grid'] += 1
            continue
        repro = reproduced_degree(m, npts) >= DEG[cls]
        # what a history-free object returns for each query
        ref = {}
        for (op, arg) in calls:
            ref[(op, arg)] = do_call(make_interp(m, s, table, False), op, X[arg])
            cnt['calls'] += 1
            r = ref[(op, arg)]
            if r[0] != 'ok':
                continue
            # ... is the spec's exact outcome where the method reproduces the table (at a node: every method)
            for i, pid in enumerate(arg):
                if pid not in exact:
                    continue
                if judge == 'val' and r[1] is not None and (repro or (pid == 'B' and bnode)):
                    cnt['compared'] += 1
                    if not close_exact(float(r[1][i]), exact[pid][0], scale):
                        fails.append(([(op, arg)], 0, m, 'InterpND %s%s' % (op, list(arg)), float(r[1][i]),
                                      'table value at a node' if (pid == 'B' and bnode) else
                                      'polynomial of the reproduced class'))
                if judge == 'grad' and r[2] is not None and repro and not (pid == 'B' and bnode):
                    cnt['compared'] += 1
                    if any(not close_exact(float(r[2][i][j]), exact[pid][1][j], scale) for j in range(dim)):
                        fails.append(([(op, arg)], 0, m, 'InterpND %s%s' % (op, list(arg)), r[2][i].tolist(),
                                      'G1: gradient w.r.t. the query point = exact gradient of the reproduced polynomial'))
        for h in hists:
            it = make_interp(m, s, table, False)
            cnt['histories'] += 1
            for k, (op, arg) in enumerate(h):
                r = do_call(it, op, X[arg])
                cnt['calls'] += 1
                want = ref[(op, arg)]
                if want[0] != 'ok':
                    break          # the query itself is refused, history or not: nothing to say about histories
                relevant = (judge == 'val' and op in ('val', 'valD')) or (judge == 'grad' and op in ('valD', 'grad'))
                if r[0] != 'ok':
                    if relevant:
                        fails.append((h, k, m, 'InterpND %s%s' % (op, list(arg)), r,
                                      'H: no error expected (the same query succeeds on a fresh object)'))
                    break
                if not relevant:
                    continue
                cnt['compared'] += 1
                if judge == 'val':
                    if float(np.max(np.abs(r[1] - want[1]))) > tol:
                        fails.append((h, k, m, 'InterpND %s%s' % (op, list(arg)),
                                      {'in_history': r[1].tolist(), 'fresh_object': want[1].tolist()},
                                      'H: the value returned by a query depends on the queries made before'))
                        break
                else:
                    if not np.all(np.isfinite(r[2])) or float(np.max(np.abs(r[2] - want[2]))) > tol:
                        fails.append((h, k, m, 'InterpND %s%s' % (op, list(arg)),
                                      {'in_history': r[2].tolist(), 'fresh_object': want[2].tolist()},
                                      'H: the gradient returned by a query is not the gradient at the queried point '
                                      '(it depends on the queries made before)'))
                        break
    return dict(cnt), fails


def _hist_worker(chunk):
    return [hist_group(it) for it in chunk]


def hist_scenario(s, o, h, k):
    scen = dict(s)
    scen['x'] = [float(v) for v in point_of(s)]
    scen['hist'] = [[op, list(arg)] for op, arg in h]
    scen['hist_points'] = hist_points(s, o)
    scen['failing_call'] = k
    return scen


def run_histories(ctx, pid, exports, hists, judge, methods_of):
    """cross product (scenario x history) -> violations; returns counters"""
    items = [(e['s'], e['o'], hists, judge, methods_of(e['s'])) for e in exports]
    n = nproc()
    order = sorted(range(len(items)), key=lambda i: -(3 ** items[i][0]['dim']))
    idx_chunks = [c for c in ([i for i in order[k::n * 4]] for k in range(n * 4)) if c]
    res = pmap(_hist_worker, [[items[i] for i in c] for c in idx_chunks], nproc=n)
    tot = collections.Counter()
    for ids, rs in zip(idx_chunks, res):
        for i, (cnt, fails) in zip(ids, rs):
            tot.update(cnt)
            e = exports[i]
            # one violation per (scenario, history, clause)
            by = collections.OrderedDict()
            for (h, k, m, via, obs, clause) in fails:
                by.setdefault((tuple(h), k, clause), []).append((m, via, obs, clause))
            for (h, k, clause), fs in by.items():
                scen = hist_scenario(e['s'], e['o'], h, k)
                scen['failing'] = [[f[0], f[1], f[2], f[3]] for f in fs]
                ctx.violation(scen, e['o'], [[f[0], f[1], f[2]] for f in fs],
                              '%s [%s] after %s' % (clause, ', '.join(sorted(set(f[0] for f in fs))),
                                                    [list(c) for c in h[:k]]),
                              snippet='replay with: ./check %s --replay <this file>' % pid)
    return tot


def replay_history(ctx, pid, rec, judge):
    """./check Cnn --replay <file> for a stored history scenario"""
    s, o = rec['scenario'], rec['expected']
    base = {k: v for k, v in s.items() if k not in ('x', 'hist', 'hist_points', 'failing_call', 'failing')}
    crosscheck({'s': base, 'o': o})
    run_hist_tlc(ctx, ['val', 'valD', 'grad'], True, 2)
    h = [(op, tuple(arg)) for op, arg in s['hist']]
    cnt, fails = hist_group((base, o, [h], judge, methods_for(base['dim'])))
    ctx.impl = 1
    ctx.evaluations = cnt.get('calls', 0)
    ctx.rule = 'replay of one stored query history'
    ctx.sample({'replayed': ctx.replay, 'failures': [[f[2], f[3], f[4], f[5]] for f in fails]})
    for f in fails:
        scen = hist_scenario(base, o, f[0], f[1])
        scen['failing'] = [[f[2], f[3], f[4], f[5]]]
        ctx.violation(scen, o, [[f[2], f[3], f[4]]], rec['clause'])


SEMI_METHODS = ('slinear', 'lagrange2', 'lagrange3', 'akima')


def check_semi(s0, pts, table, scale, npts, uni, fails, cnt):
    """MetaModelSemiStructuredComp trained with the full grid (every node as one training point): the same table
    methods, so the same exactness - table value at nodes, the reproduced polynomial class inside the grid.  Axes with
    fewer points than the method needs are skipped (the component reduces the order there)."""
    import itertools
    import numpy as np
    import openmdao.api as om
    dim, cls = s0['dim'], s0['cls']
    nodes = np.array(list(itertools.product(*[np.array(g, dtype=float) for g in s0['g']])))
    for m in SEMI_METHODS:
        if any(n < METHODS[m][0] for n in npts):
            continue
        repro = reproduced_degree(m, npts, uni) >= DEG[cls]
        todo = [j for j, (x, want, err, inb, allnode) in enumerate(pts) if inb and (repro or allnode)]
        if not todo:
            continue
        try:
            p = om.Problem()
            c = om.MetaModelSemiStructuredComp(method=m, extrapolate=True, vec_size=1)
            for i in range(dim):
                c.add_input('x%d' % i, training_data=nodes[:, i].copy())
            c.add_output('f', training_data=np.array(table, dtype=float).ravel())
            p.model.add_subsystem('mm', c, promotes=['*'])
            p.setup()
            p.final_setup()
        except Exception as e:      # noqa: BLE001
            fails[todo[0]].append((m, 'MetaModelSemiStructuredComp.setup', ('exc', '%s: %s' % (type(e).__name__, str(e)[:120])),
                                   'component setup on the full grid'))
            continue
        for j in todo:
            x, want, err, inb, allnode = pts[j]
            r = call_mm(p, x)
            cnt['calls'] += 1
            cnt['semi_calls'] += 1
            if r[0] != 'v':
                fails[j].append((m, 'MetaModelSemiStructuredComp', r, 'no error expected (point inside the grid)'))
                continue
            cnt['compared'] += 1
            if not close_exact(r[1], want, scale):
                fails[j].append((m, 'MetaModelSemiStructuredComp', r, 'table value at a node' if allnode else
                                 'polynomial of the reproduced class'))


def build_items(groups, ctx, mm_every, semi_every=0):
    rnd = random.Random(ctx.seed)
    items = []
    for gi, (s0, es) in enumerate(groups):
        pts = []
        for e in es:
            s, o = e['s'], e['o']
            x = [float(v) for v in point_of(s)]
            pts.append((x, None if o['err'] else float(fr(o['v'])), o['err'], o['inb'],
                        all(p['kd'] == 'node' for p in s['pos'])))
        do_mm = rnd.randrange(mm_every) == 0
        # the semi-structured component: a seeded share of the groups and every evenly spaced 1-D grid (where Akima's
        # quadratic exactness applies)
        do_semi = bool(semi_every) and (rnd.randrange(semi_every) == 0 or (s0['dim'] == 1 and es[0]['o']['uni']))
        items.append((s0, pts, do_mm, [e['s']['pos'] for e in es], es[0]['o']['uni'], do_semi))
    return items


def _worker(chunk):
    return [check_group(it) for it in chunk]


# the genuine defect found by this check (see the report): `eps = 1e-14 * grid[-1]` in InterpND._interpolate is
# negative for a grid that ends below zero, so a point on either boundary of such an axis trips the bounds test and
# `set().pop()` raises KeyError instead of returning the table value (or the OutOfBoundsError of another axis).
def pred_negative_grid_eps(scenario, info):
    s = scenario
    if s.get('ex'):
        return False
    on_neg_boundary = any(g[-1] < 0 and X in (s['R'] * g[0], s['R'] * g[-1]) for g, X in zip(s['g'], s['X']))
    obs = json.dumps(info.get('observed'))
    return bool(on_neg_boundary and 'KeyError' in obs and all('KeyError' in json.dumps(f[2]) for f in s.get('failing', [])))


# second genuine defect: the slope-extension chains `if idx == 0 / elif idx == 1 / elif idx == ngrid - 3 / elif idx ==
# ngrid - 2` in interp_akima.py never reach the third branch on a grid with exactly 4 points (the documented minimum),
# where idx == 1 == ngrid - 3: Interp1DAkima.compute_coeffs leaves m5 unbound (UnboundLocalError for every point of the
# middle cell) and InterpAkima keeps m5 = 0, so 'akima' differs from '1D-akima' (and from Akima's formula) there.
def pred_akima_four_points(scenario, info):
    s = scenario
    if s.get('dim') != 1 or len(s['g'][0]) != 4:
        return False
    g, X, R = s['g'][0], s['X'][0], s['R']
    if not (R * g[1] <= X <= R * g[2]):
        return False
    fl = s.get('failing', [])
    return bool(fl) and all(f[0] == '1D-akima' and ('UnboundLocalError' in json.dumps(f[2]) or
                                                    'fixed-dimension variant differs' in f[3]) for f in fl)


# third defect: the fixed-dimension methods keep two incompatible caches in one attribute (`coeffs` is a dict of
# per-cell coefficients for single-point queries and is replaced by a set of cell indices by the vectorised path, which
# also leaves index arrays in `last_index`): a single-point query after a multi-point query on the same InterpND raises
def pred_fixed_mixed_batch(scenario, info):
    s = scenario
    fl = s.get('failing', [])
    if 'hist' not in s or not fl:
        return False
    k = s.get('failing_call', 0)
    h = s['hist']
    if k < 1 or len(h[k][1]) != 1 or not any(len(c[1]) > 1 for c in h[:k]):
        return False
    return all(METHODS.get(f[0], (0, None, None))[1] is not None and f[2][0] == 'exc' and
               ('TypeError' in f[2][1] or 'ValueError' in f[2][1]) for f in fl)


# fourth / fifth defect (InterpAkimaSemi, MetaModelSemiStructuredComp(method='akima')): the derivative section uses
# `bpos` / `dbp1` that are only bound when the Akima weights do not vanish (UnboundLocalError for any table that is
# linear along an outer axis around the query), and the same idx == 1 == ngrid - 3 branch chain as the structured
# Akima (wrong value in the middle cell of an axis with exactly 4 points)
def pred_semi_akima_unbound(scenario, info):
    fl = scenario.get('failing', [])
    return bool(fl) and all(f[0] == 'akima' and f[1] == 'MetaModelSemiStructuredComp' and f[2][0] == 'exc' and
                            'UnboundLocalError' in f[2][1] for f in fl)


def pred_semi_akima_four_points(scenario, info):
    fl = scenario.get('failing', [])
    return bool(fl) and any(len(g) == 4 for g in scenario.get('g', [])) and \
        all(f[0] == 'akima' and f[1] == 'MetaModelSemiStructuredComp' and f[2][0] == 'v' for f in fl)


def install_tally(ctx, preds):
    """count the reported disagreements by defect class (whether or not the class is listed in known_findings.json)"""
    report = ctx.violation
    tally = ctx.extra.setdefault('disagreeing_scenarios_by_class', {})

    def violation(scenario, expected, observed, clause, snippet=None, info=None):
        hit = []
        for k, pred in preds.items():
            try:
                if pred(scenario, info or {'clause': clause, 'observed': observed}):
                    hit.append(k)
            except Exception:       # noqa: BLE001
                pass
        for k in hit or ['unclassified']:
            tally[k] = tally.get(k, 0) + 1
        return report(scenario, expected, observed, clause, snippet=snippet, info=info)

    ctx.violation = violation


def replay(ctx):
    """./check C15 --replay <file>: execute one stored scenario again (every method, InterpND and the component)
    against the stored spec outcome."""
    with open(ctx.replay) as f:
        rec = json.load(f)
    s, o = rec['scenario'], rec['expected']
    # the laws are re-checked by TLC on a small bound; the stored expectation must equal the Fraction reference
    cfg = write_cfg(ctx, 'InterpReplay.cfg', dims=[1], npoly=1, all1d=False, nrep=2, nrep3=1, full2d=False,
                    interior=False, exset=[True, False])
    run_tlc(ctx, cfg, timeout=600)
    if 'hist' in s:
        return replay_history(ctx, 'C15', rec, 'val')
    crosscheck({'s': s, 'o': o})
    item = build_items([(s, [{'s': s, 'o': o}])], ctx, 1, 1)[0]
    cnt, fails = check_group(item)
    ctx.impl = 1
    ctx.evaluations = cnt.get('calls', 0)
    ctx.rule = 'replay of one stored scenario'
    ctx.sample({'replayed': ctx.replay, 'failures': [[f[0], f[1], f[2], f[3]] for fl in fails.values() for f in fl]})
    for fl in fails.values():
        scen = dict(s)
        scen['failing'] = [[f[0], f[1], f[2], f[3]] for f in fl]
        ctx.violation(scen, o, [[f[0], f[1], f[2]] for f in fl], rec['clause'])


def run(ctx):
    preds = {'C15-negative-grid-eps': pred_negative_grid_eps,
             'C15-akima-four-point-grid': pred_akima_four_points,
             'C15-fixed-method-mixed-batch': pred_fixed_mixed_batch,
             'C15-semi-akima-unbound-local': pred_semi_akima_unbound,
             'C15-semi-akima-four-point-grid': pred_semi_akima_four_points}
    ctx.register_predicates(preds)
    install_tally(ctx, preds)
    if getattr(ctx, 'replay', None):
        return replay(ctx)
    quick = ctx.tier == 'quick'
    if quick:
        cfg = write_cfg(ctx, 'Interp.cfg', dims=[1, 2], npoly=1, all1d=True, nrep=5, nrep3=1, full2d=False,
                        interior=False, exset=[True, False], exfull=False)
    else:
        cfg = write_cfg(ctx, 'Interp.cfg', dims=[1, 2, 3], npoly=2, all1d=True, nrep=8, nrep3=3, full2d=False,
                        interior=False, exset=[True, False])
    r, exports = run_tlc(ctx, cfg)
    groups = group(exports)
    items = build_items(groups, ctx, mm_every=5 if quick else 6, semi_every=8 if quick else 6)
    n = nproc()
    # big groups first, round-robin over chunks
    order = sorted(range(len(items)), key=lambda i: -len(items[i][1]) * (3 ** items[i][0]['dim']))
    chunks = [[items[i] for i in order[c::n * 6]] for c in range(n * 6)]
    idx_chunks = [[i for i in order[c::n * 6]] for c in range(n * 6)]
    res = pmap(_worker, chunks, nproc=n)
    idx_chunks = [c for c in idx_chunks if c]
    tot = collections.Counter()
    nscen = 0
    for ids, rs in zip(idx_chunks, res):
        for gi, (cnt, fails) in zip(ids, rs):
            tot.update(cnt)
            s0, es = groups[gi]
            nscen += len(es)
            for e in es:
                s = e['s']
                if any(p['kd'] != 'node' or p['ix'] in (1, len(g)) for p, g in zip(s['pos'], s['g'])):
                    ctx.note_nontrivial(json.dumps([s['g'], s['cls'], s['p'], s['pos'], s['ex']]))
            for j, fl in sorted(fails.items()):
                e = es[int(j)]
                byc = collections.OrderedDict()
                for f in fl:
                    byc.setdefault(f[3], []).append(f)
                for clause, fs in byc.items():
                    scen = dict(e['s'])
                    scen['x'] = [float(v) for v in point_of(e['s'])]
                    scen['failing'] = [[f[0], f[1], f[2], f[3]] for f in fs]
                    ctx.violation(scen, e['o'], [[f[0], f[1], f[2]] for f in fs],
                                  '%s [%s]' % (clause, ', '.join(sorted(set(f[0] for f in fs)))),
                                  snippet='replay with: ./check C15 --replay <this file>')
    # ---- histories of queries on one object (InterpHist.tla x a reduced scenario base with a second point B) -------
    hcfg = write_cfg(ctx, 'InterpHistBase.cfg', dims=[1, 2, 3], npoly=1, all1d=False, nrep=3 if quick else 5, nrep3=1,
                     full2d=False, interior=True, exset=[False], histpos=True, bkind='node')
    _, hexports = run_tlc(ctx, hcfg)
    hists = run_hist_tlc(ctx, ['val', 'valD'], False, 2, refute=False)      # C16 runs the refutations
    if not quick:
        h3 = run_hist_tlc(ctx, ['val', 'valD'], False, 3, refute=False)
        random.Random(ctx.seed).shuffle(h3)
        hists = hists + h3[:128]
    htot = run_histories(ctx, 'C15', hexports, hists, 'val', lambda s_: methods_for(s_['dim']))
    for e in hexports:
        ctx.note_nontrivial(json.dumps(['hist', e['s']['g'], e['s']['cls'], e['s']['pos']]))
    tot.update(htot)
    ctx.extra['history_scenarios'] = len(hexports)
    ctx.extra['histories_per_scenario'] = len(hists)
    ctx.impl = nscen + len(hexports) * len(hists)
    ctx.evaluations = tot['calls']
    ctx.exhaustive = True
    ctx.extra['counters'] = dict(tot)
    ctx.extra['groups'] = len(groups)
    pick = [e for e in exports if e['o']['interior']][:1] + [e for e in exports if e['o']['err']][:1] + \
        [e for e in exports if e['s']['dim'] == 2 and e['s']['cls'] == 'cub' and e['o']['interior']][:1]
    for e in pick:
        ctx.sample({'scenario': e['s'], 'spec_outcome': e['o']})
    ctx.rule = ('(1) every scenario of Interp.tla: %s; x {multilinear, tensor-quadratic, tensor-cubic} integer table (%d per class) '
                'x query {every node, cell midpoints, quarter points, both boundaries, 1/R outside each boundary} per axis '
                'x extrapolate; each executed on InterpND with every table method that provably reproduces the class '
                '(all methods at nodes), single-point, vectorised, fixed-dimension vs general, and a seeded 1/%d of the '
                '(grid, table) groups through MetaModelStructuredComp, 1/%d (and every evenly spaced 1-D grid) through '
                'MetaModelSemiStructuredComp; non-trivial = distinct scenarios whose point is not a strictly interior '
                'node.  (2) query histories: every history of InterpHist.tla (%d per scenario) x %d base scenarios '
                '(dimension 1-3, point in the first or in the last cell of every axis, second point B = the second node of every axis) on '
                'every applicable method' %
                ('1-D: all 336 strictly increasing grids of 3-5 points in -4..4; 2-D: all pairs of %d representative grids'
                 % (5 if quick else 8) + ('' if quick else '; 3-D: 3 grids'), 1 if quick else 2, 5 if quick else 6,
                 8 if quick else 6, len(hists), len(hexports)))
    ctx.assumptions = [
        'tables are integer polynomials of the class each method provably reproduces (akima, cubic, slinear, '
        'scipy_slinear: multilinear; lagrange2: tensor quadratic; lagrange3, scipy_cubic/quintic on >=4 points per axis: '
        'tensor cubic); other tables are only used at nodes and for fixed-vs-general agreement',
        'grid coordinates are integers in -4..4 with 3-5 points per axis; query coordinates are multiples of 1/4 (1/2 in 3-D)',
        'grids with fewer points than a method needs are skipped for that method after checking that the general '
        'method rejects them itself (counted in coverage.counters)',
        'the out-of-bounds error is OutOfBoundsError for InterpND.interpolate and AnalysisError for MetaModelStructuredComp',
        'float comparison: |obs - exact| <= 1e-9 + 1e-9*|exact| + 1e-11*max|table| (round-off of the operands)',
        'akima additionally has to reproduce tensor quadratics at in-bounds points of grids that are evenly spaced on '
        'every axis (the end continuation of the slopes extends the arithmetic progression of a parabola\'s slopes)',
        'MetaModelSemiStructuredComp: full grid as training points, extrapolate=True, in-bounds points only, methods '
        'slinear / lagrange2 / lagrange3 / akima on grids where every axis has the points the method needs (else the '
        'component reduces the order)',
        'histories: values in a history are compared with those of a fresh object at 1e-12*(1+max|table|); a query a '
        'fresh object refuses is not judged',
    ]
