"""C24 - relevance pruning is unobservable in results.

Spec: OMModel.tla RelevantComps (Reach / CoReach on the component data graph) and the exact TotalAll; OMJudge.tla
RelOK + BlocksOK.  Generated models with dead branches and several design variables / responses are differentiated with
recursing linear solvers (LinearRunOnce, LinearBlockGS, LinearBlockJac, ScipyKrylov) and DirectSolver, with relevance
enabled and disabled: (1) every block must equal the exact derivative in both runs (hence they equal each other);
(2) for every linear solve the set of components that executed must contain every component the specification deems
relevant to the seed (under-execution is the unsound direction)."""
import numpy as np

from .. import ombuild as ob
from .. import sysobs as so
from ..sysdriver import gen_model, run_tlc_judge, with_solver, legal
from ..tlc import MachineryError
from ..util import pmap, quiet, split

OPTS = {'storage': ['dense', 'rowscols', 'csc', 'matfree'], 'cyc_frac': .25, 'ncomp': None, 'bil': .3}
LNS = [('runonce', {}), ('lnbgs', {}), ('lnbj', {}), ('krylov', {}), ('direct', {'assemble_jac': False})]


def totals_logged(md, ref, mode, scaled, log):
    """compute_totals on the declared variables of interest while logging which components take part in each
    root linear solve; returns blocks (quantised) and the per-solve log"""
    Aff, MF, Imp, Bil, MFBil = ob.classes()
    p = ob.build(md, {'mode': mode})
    p.run_model()
    cur = {'exec': None}
    solves = []
    orig = {}
    for cls in (Aff, MF, Imp, Bil, MFBil):
        for meth in ('_solve_linear', '_apply_linear'):
            f = getattr(cls, meth)
            orig[(cls, meth)] = f

            def wrapped(self, *a, _f=f, **k):
                if cur['exec'] is not None:
                    cur['exec'].add(self.options['comp']['id'])
                return _f(self, *a, **k)
            setattr(cls, meth, wrapped)
    # a group solved by a DirectSolver takes part as a whole (its components are not called individually)
    import openmdao.api as om
    gsl = om.Group._solve_linear

    def group_solve(self, *a, **k):
        if cur['exec'] is not None and isinstance(self._linear_solver, om.DirectSolver):
            pre = self.pathname + '.' if self.pathname else ''
            for c in md['comps']:
                if (ob.comp_path(c) + '.').startswith(pre):
                    cur['exec'].add(c['id'])
        return gsl(self, *a, **k)
    om.Group._solve_linear = group_solve
    # a group whose product is taken from its own assembled jacobian takes part as a whole as well (a Krylov parent calls
    # _apply_linear of the group, which does not recurse into the components)
    gal = om.Group._apply_linear

    def group_apply(self, *a, **k):
        if cur['exec'] is not None:
            jac = self._get_jacobian()
            if jac is not None and jac is not self._tot_jac:
                pre = self.pathname + '.' if self.pathname else ''
                for c in md['comps']:
                    if (ob.comp_path(c) + '.').startswith(pre):
                        cur['exec'].add(c['id'])
        return gal(self, *a, **k)
    om.Group._apply_linear = group_apply
    model = p.model
    osl = model._solve_linear

    def root_solve(m, *a, **k):
        vec = model._dresiduals if m == 'fwd' else model._doutputs
        seeded = [o['id'] for o in md['outs'] if np.any(vec[ob.out_path(md, o['id'])] != 0)]
        cur['exec'] = set()
        try:
            return osl(m, *a, **k)
        finally:
            solves.append({'mode': m, 'seeded': seeded, 'executed': sorted(cur['exec'])})
            cur['exec'] = None
    model._solve_linear = root_solve
    try:
        blocks = so.observe_blocks(p, md, ref, scaled, 'flat_dict', 1e-7)
    finally:
        del model._solve_linear
        om.Group._solve_linear = gsl
        om.Group._apply_linear = gal
        for (cls, meth), f in orig.items():
            setattr(cls, meth, f)
    return blocks, solves


def observe(seed):
    from openmdao.core.analysis_error import AnalysisError
    import openmdao.utils.relevance as relmod
    md, ref, rng = gen_model(seed, OPTS)
    if md is None or not md['desvars'] or not md['responses']:
        return {'skip': 'rejected'}
    if seed % 3 == 0:
        # a state that is reached from the design variables only through its coupling with the other state of its
        # component becomes the ONLY response when that other state is consumed elsewhere (by components that then lead to
        # no response): relevance must keep the coupling
        for c in md['comps']:
            if c['kind'] == 'bil' and c['storage'][1] and all(st == 'rowscols' for st in c['storage'][1]) and \
                    any(i['src'] == c['outs'][0] for i in md['ins']):
                r0 = dict(md['responses'][0], oid=c['outs'][1], indices_term=None, flat_indices=False)
                md['responses'] = [r0]
                break
    order = __import__('vf.modelgen', fromlist=['x']).eval_order(md)
    cpos = {cid: k + 1 for k, cid in enumerate(order)}
    cfgs, rel, meta = [], [], []
    try:
        for ln in rng.sample(LNS, 3):
            m = with_solver(md, ln=ln)
            if not legal(m):
                continue
            mode = rng.choice(['fwd', 'rev'])
            scaled = rng.random() < .5
            for relevance_on in (True, False):
                relmod._no_relevance = not relevance_on
                try:
                    try:
                        blocks, solves = totals_logged(m, ref, mode, scaled, True)
                    except AnalysisError:
                        meta.append({'ln': ln[0], 'skipped': 'noconv'})
                        continue
                finally:
                    relmod._no_relevance = False
                # `full` is not observed here: for feedback models the blocks are judged against the reference full
                cfgs.append({'full': [[[so.rj(x) for x in row] for row in mm] for mm in so.ref_full(m, ref)],
                             'blocks': blocks, 'scaled': scaled})
                meta.append({'ln': ln[0], 'mode': mode, 'relevance': relevance_on, 'solves': len(solves)})
                if relevance_on:
                    dv = [d['oid'] for d in md['desvars']]
                    rs = [r['oid'] for r in md['responses']]
                    for s in solves:
                        if len(s['seeded']) != 1:
                            continue
                        sd = s['seeded'][0]
                        if s['mode'] == 'fwd' and sd in dv:
                            others = rs
                        elif s['mode'] == 'rev' and sd in rs:
                            others = dv
                        else:
                            continue
                        rel.append({'mode': s['mode'], 'seed': sd + 1, 'others': [o + 1 for o in others],
                                    'executed': [cpos[c] for c in s['executed']], 'ln': ln[0]})
    except Exception as e:
        import traceback
        return {'exc': '%s: %s' % (type(e).__name__, e), 'tb': traceback.format_exc()[-1500:], 'md': md}
    if not cfgs:
        return {'skip': 'no-config'}
    lns = [r.pop('ln') for r in rel]
    case = so.case_record(md, ref, [], cfgs, rel=rel)
    return {'case': case, 'md': md, 'meta': meta, 'seed': seed, 'rel_ln': lns}


def _worker(seeds):
    quiet()
    return [observe(s) for s in seeds]


def run(ctx):
    quick = ctx.tier == 'quick'
    n = 220 if quick else 2600
    base = 9000049 * (1 + ctx.seed % 1000)
    res = [r for rs in pmap(_worker, [c for c in split(list(range(base, base + n)), 48) if c]) for r in rs]
    for r in res:
        if 'exc' in r:
            ctx.violation({'model': r['md']}, 'compute_totals succeeds', r['exc'], 'exception from OpenMDAO: ' + r['exc'].split(':')[0],
                          snippet=r['tb'])
    cases = [r for r in res if 'case' in r]
    if not cases:
        raise MachineryError('no cases')
    v = run_tlc_judge(ctx, [r['case'] for r in cases])
    nj = nrel = 0
    for k, r in enumerate(cases):
        vv = v[k + 1]
        if not vv['oracle']:
            raise MachineryError('oracle cross-check failed for seed %d' % r['seed'])
        done = [m for m in r['meta'] if 'skipped' not in m]
        for j, cv in enumerate(vv['cfgs']):
            nj += 1
            ctx.note_nontrivial('%d:%s' % (r['seed'], done[j]))
            if not cv['blocks']:
                ctx.violation({'seed': r['seed'], 'cfg': done[j], 'model': r['md']}, 'blocks of the exact derivative',
                              r['case']['cfgs'][j]['blocks'],
                              'totals with relevance %s differ from the exact derivative' % ('enabled' if done[j]['relevance'] else 'disabled'))
        for j, ok in enumerate(vv['rel']):
            nrel += 1
            if not ok:
                ctx.violation({'seed': r['seed'], 'solve': r['case']['rel'][j], 'ln': r['rel_ln'][j], 'model': r['md']},
                              'executed components include every relevant component', r['case']['rel'][j],
                              'a component relevant to the seed did not take part in the linear solve')
    ctx.impl = nj + nrel
    ctx.evaluations = nj + nrel
    ctx.extra.update({'models': len(cases), 'configurations_judged': nj, 'linear_solves_judged': nrel})
    for r in cases[:2]:
        ctx.sample({'seed': r['seed'], 'meta': r['meta'][:4], 'first_solves': r['case']['rel'][:2]})
    ctx.rule = ('generated models with irrelevant branches, 1-2 design variables and 1-3 responses (with indices); 3 linear solvers x '
                '{relevance on, off} x mode; TLC judges every block against the exact derivative and every logged linear solve '
                'against RelevantComps; non-trivial = distinct (model, solver, mode, relevance) configurations')
    from . import c24opt
    nm, npts = c24opt.run_opt_loop(ctx)
    ctx.rule += ('; second family: %d generated models with non-design independents run by a deterministic optimisation-style driver with group_by_pre_opt_post on and off, %d design points judged (responses and total-derivative blocks seen in the loop, complete state left after the run)' % (nm, npts))
    ctx.assumptions = ['relevance is disabled through openmdao.utils.relevance._no_relevance (the OPENMDAO_NO_RELEVANCE switch)',
                       'no MPI: parallel_deriv_color seeds are not exercised', 'optimizer results (pre/post-opt grouping) not yet covered']
