"""C29 - wrapped input files parse back to the values written.

Spec: spec/mech/FileWrap.tla (+ FileWrapMC.tla).  TLC (1) checks ReadBack, ArrayReadBack, OthersUnchanged,
AnchorSemantic, RejectLeaves, AnchorStable on every operation sequence up to the depth bound;
(2) exports every transition {sc, f, a, t, r} of the bounded state graph.  transfer_array is specified
with its row_end argument (an array wrapped over several lines: fields fs.. of the first line, whole
lines in between, fields ..fe of the last) and FileParser.transfer_array(rowstart, fieldstart, rowend,
fieldend) as the spec's ReadArray over the same locations.  The delimiter set is a parameter of the
scenario the spec does not depend on; two of the four sets hold characters that are special in a regular
expression (']' and '-').  Each exported transition
is executed on a real InputFileGenerator (driven from the rendered template along a shortest path
of real API calls to the source state), once per candidate Python value of its value slot; the
generated file is then read back field by field with a real FileParser (same delimiters; the
written location through the anchor addressing the spec gives, every field by absolute row) and
compared with the spec's file state: written fields return the value written (ints as ints, floats
to 16 significant digits, inf/nan as such, strings identical), all other fields are unchanged.
"""
import gc
import json
import math
import os
import random
import re

from ..graph import Graph, key as graph_key
from ..tlc import MachineryError
from .. import util

INF = float('inf')
NAN = float('nan')

# candidate values of a value slot (the extra dimension every write transition is executed over)
UNIVERSE = [0, -7, 123456789,
            1.5, -0.0, 1e300, 1e-300, 0.1, 3.141592653589793, 1.2345678901234567e-05,
            2.0, -2.5e-07, -1e-05,
            # 16 significant digits of these have no fraction left ('%.16g' prints no decimal point)
            1.0000000000000002, -2251799813685248.5,
            INF, -INF, NAN,
            'abc', 'x_1']

ANCHOR = {1: 'AAA', 2: 'BBB'}
# the other template tokens: id -> (text in the template, value a correct read returns)
_TOKS = [('7', 7), ('2.5', 2.5), ('k1', 'k1'), ('-3', -3), ('1e65', 1e65), ('Test', 'Test'), ('0', 0),
         ('34', 34), ('333.444', 333.444), ('Stuff', 'Stuff'), ('0.0003', 0.0003), ('-12.5', -12.5),
         ('False', 'False'), ('4', 4), ('B', 'B'), ('6.0', 6.0), ('x', 'x'), ('-1.25E+3', -1250.0), ('77', 77)]


def token(i, chars=' '):
    if i in ANCHOR:
        return ANCHOR[i], ANCHOR[i]
    text, val = _TOKS[(i - 11) % len(_TOKS)]
    if '-' in chars and '-' in text:
        # '-' is a delimiter: no field contains it
        text, val = text.replace('-', ''), abs(val)
    return text, val


# delimiter sets of the scenarios (id in the spec -> characters, separators used in the rendered template,
# separator handed to transfer_array for appended values).  3 and 4 hold characters that are special inside
# a regular-expression character class.
DELIMS = {1: {'chars': ' ', 'seps': [' ', '  '], 'sep': ' '},
          2: {'chars': ', ', 'seps': [', ', ' ', ',', ' , '], 'sep': ', '},
          3: {'chars': ' ]', 'seps': [' ', ']', ' ] ', '] '], 'sep': ' '},
          4: {'chars': ' -', 'seps': [' ', '-', ' - ', '  '], 'sep': ' '}}
LEADS = ['', ' ', '  ']

# benign values of the slots: used on the path to the source state and for the other elements of an array
BENIGN = {'mixed': {101: 0.1, 102: 'x_1', 103: -7},
          'float': {101: 0.1, 102: 1.5, 103: 2.0},
          'int': {101: 42, 102: -7, 103: 5},
          'str': {101: 'abc', 102: 'x_1', 103: 'q'}}


def admissible(v, chars):
    """The text of value v holds no delimiter character (only '-' can occur in the texts used here)."""
    if '-' not in chars:
        return True
    if isinstance(v, str):
        return '-' not in v
    return math.copysign(1.0, v) > 0 and (v == 0 or v != v or abs(v) >= 1e-4)


def benign(cls, chars):
    env = BENIGN[cls]
    if '-' in chars:
        env = {k: (v if isinstance(v, str) else abs(v)) for k, v in env.items()}
    return env


def vclass(v):
    if isinstance(v, str):
        return 'str'
    if isinstance(v, float):
        return 'float'
    return 'int'


def render(tmpl, delim, newline_at_end):
    """Template text (list of lines with their line ends) of a spec file of template token ids."""
    d = DELIMS[delim]
    lines = []
    for i, line in enumerate(tmpl):
        s = LEADS[i % len(LEADS)]
        for j, tid in enumerate(line):
            if j:
                s += d['seps'][(i + j) % len(d['seps'])]
            s += token(tid, d['chars'])[0]
        if i < len(tmpl) - 1 or newline_at_end:
            s += '\n'
        lines.append(s)
    return lines


# --------------------------------------------------------------------------------------------
# comparison rule of the property

def same(exp, obs):
    """obs (what FileParser returned) is the value exp that was written."""
    if isinstance(exp, str):
        return isinstance(obs, str) and obs == exp
    if isinstance(exp, bool) or isinstance(obs, bool):
        return False
    if isinstance(exp, int):
        return isinstance(obs, int) and obs == exp
    if not isinstance(obs, float):
        return False
    if exp != exp:
        return obs != obs
    if exp in (INF, -INF):
        return obs == exp
    if obs == 0.0 and exp == 0.0:
        return math.copysign(1.0, obs) == math.copysign(1.0, exp)
    return obs == exp or obs == float('%.16g' % exp)


def plain(v):
    """numpy scalars -> python scalars (FileParser returns python objects, arrays give numpy ones)."""
    import numpy as np
    if isinstance(v, np.generic):
        return v.item()
    return v


# --------------------------------------------------------------------------------------------
# execution of one concrete scenario on the real classes

def _call(gen, act, sep):
    import numpy as np
    n = act['n']
    if n == 'MarkAnchor':
        gen.mark_anchor(act['anchor'], act['occ'])
    elif n == 'ResetAnchor':
        gen.reset_anchor()
    elif n == 'TransferVar':
        gen.transfer_var(act['value'], act['row'], act['f'])
    elif n == 'TransferArray':
        v = act['value']
        if act.get('container') == 'ndarray':
            v = np.array(v)
        if act.get('re', act['row']) != act['row']:
            gen.transfer_array(v, act['row'], act['fs'], act['fe'], row_end=act['re'], sep=sep)
        else:
            gen.transfer_array(v, act['row'], act['fs'], act['fe'], sep=sep)
    elif n == 'Transfer2DArray':
        gen.transfer_2Darray(np.array(act['value']), act['rs'], act['re'], act['fs'], act['fe'])
    elif n == 'ClearLine':
        gen.clearline(act['row'])
    else:
        raise MachineryError('unknown action %r' % (act,))


_TEMPLATES = {}


def execute(S, workdir):
    """Run scenario S.  Returns None (agrees with the spec), ('skip', why) when the path to the source
    state already disagrees (that transition is an edge of its own), or (clause, observed, info)."""
    from openmdao.utils.file_wrap import InputFileGenerator
    # (re-writing an existing file is ~50x dearer than creating one here: keep one template file per
    # distinct template text, and unlink the generated file before generate() creates it again)
    key = (workdir, tuple(S['lines']))
    tname = _TEMPLATES.get(key)
    if tname is None:
        tname = _TEMPLATES[key] = os.path.join(workdir, 'template%d.dat' % len(_TEMPLATES))
        with open(tname, 'w') as f:
            f.writelines(S['lines'])
    oname = os.path.join(workdir, 'generated.dat')
    if os.path.exists(oname):
        os.remove(oname)
    chars, sep = S['delim'], S['sep']
    reg = re.compile('[^' + re.escape(chars) + '\n]+')
    gen = InputFileGenerator()
    gen.set_template_file(tname)
    gen.set_generated_file(oname)
    steps = S['steps']
    try:
        gen.set_delimiters(chars)
    except Exception as e:       # noqa
        info = {'action': steps[-1], 'cand': S.get('cand'), 'delim': chars,
                'exc': '%s: %s' % (type(e).__name__, e)}
        return ('delimiters-rejected', {'exception': info['exc']}, info)
    for act, pre in zip(steps[:-1], S['pre']):
        try:
            _call(gen, act, sep)
            res = 'ok'
        except RuntimeError:
            res = 'rejected'
        except Exception as e:       # noqa
            return ('skip', 'path raises %s' % type(e).__name__)
        # projection of the generator on the path: anchor, and fields per line of what generate() would write
        text = ''.join(gen._data)
        if res != pre['res'] or gen._current_row != pre['cur'] - 1 or bool(gen._anchored) != pre['anch'] or \
                [len(reg.findall(ln)) for ln in (text[:-1] if text.endswith('\n') else text).split('\n')] != pre['counts']:
            return ('skip', 'path state differs')
    act = steps[-1]
    exp = S['exp']
    info = {'action': act, 'cand': S.get('cand'), 'overflow': S.get('overflow', False),
            'row_is_last': S.get('row_is_last', False), 'delim': chars}
    # 1. the operation itself
    try:
        _call(gen, act, sep)
        res = 'ok'
    except RuntimeError as e:
        res = 'rejected'
        err = e
    except Exception as e:       # noqa
        info['exc'] = '%s: %s' % (type(e).__name__, e)
        return ('write-raises', {'exception': info['exc']}, info)
    if res != exp['res']:
        return ('operation-result', {'result': res, 'error': str(err) if res == 'rejected' else None}, info)
    # 2. the anchor
    if gen._current_row != exp['cur'] - 1 or bool(gen._anchored) != exp['anch']:
        return ('anchor-position', {'cur': gen._current_row + 1, 'anch': bool(gen._anchored)}, info)
    # 3. the generated file: line and field structure
    gen.generate()
    with open(oname) as f:
        raw = f.read()
    lines = raw.split('\n')
    if raw.endswith('\n'):
        lines.pop()
    efile = exp['file']
    toks = [reg.findall(ln) for ln in lines]
    if len(lines) != len(efile) or [len(t) for t in toks] != [len(r) for r in efile]:
        return ('line-structure', {'lines': lines, 'fields_per_line': [len(t) for t in toks]}, info)
    written = set((r, f) for r, f in exp['written'])
    mism = []
    for i, row in enumerate(efile):
        for j, cell in enumerate(row):
            if (i, j + 1) not in written and exp['raw'][i][j] is not None and toks[i][j] != exp['raw'][i][j]:
                mism.append({'row': i, 'field': j + 1, 'exp': exp['raw'][i][j], 'obs': toks[i][j], 'written': False,
                             'how': 'text'})
    if mism:
        info['mismatch'] = mism
        return ('other-field', {'lines': lines, 'mismatch': mism}, info)
    # 4. every field through FileParser, absolute rows
    par = READER.parser(chars, oname)
    for i, row in enumerate(efile):
        if not row:
            continue                    # a cleared line: no field to read (FileParser refuses empty lines)
        obs_row = READER.fields(par, chars, i, lines[i], i < len(lines) - 1 or raw.endswith('\n'))
        if isinstance(obs_row, str):
            mism.append({'row': i, 'field': 1, 'exp': row[0], 'obs': obs_row, 'written': (i, 1) in written,
                         'how': 'transfer_var'})
            continue
        for j, cell in enumerate(row):
            obs = obs_row[j] if j < len(obs_row) else '<IndexError>'
            if not (j < len(obs_row) and same(cell, obs)):
                mism.append({'row': i, 'field': j + 1, 'exp': cell, 'obs': obs, 'written': (i, j + 1) in written,
                             'how': 'transfer_var'})
        for j in range(len(row), len(obs_row)):
            mism.append({'row': i, 'field': j + 1, 'exp': None, 'obs': obs_row[j], 'written': False,
                         'how': 'extra-field'})
    if mism:
        info['mismatch'] = mism
        clause = 'read-back' if any(m['written'] for m in mism) else 'other-field'
        return (clause, {'lines': lines, 'mismatch': mism}, info)
    # 5. the written location through anchor addressing, and the array readers
    cur0 = exp['cur'] - 1
    first = True
    for text, occ in exp['addr']:
        par.reset_anchor()
        try:
            par.mark_anchor(text, occ)
        except RuntimeError as e:
            return ('anchor-read', {'mark_anchor': [text, occ], 'error': str(e)}, info)
        if par._current_row != cur0:
            return ('anchor-read', {'mark_anchor': [text, occ], 'row': par._current_row, 'expected_row': cur0}, info)
        if first and exp['written']:
            first = False
            r, f = exp['written'][0]
            obs = par.transfer_var(r - cur0, f)
            if not same(efile[r][f - 1], obs):
                return ('anchor-read', {'mark_anchor': [text, occ], 'row': r - cur0, 'field': f, 'obs': obs}, info)
    par.reset_anchor()
    numeric = S.get('api_read', True) and act['n'] in ('TransferArray', 'Transfer2DArray') and \
        all(not isinstance(efile[r][f - 1], str) for r, f in exp['written'])
    if numeric and act['n'] == 'TransferArray':
        # the spec's ReadArray: the written locations in (line, field) order are what the reader's
        # transfer_array(first line, first field, last line, last field) returns
        wr = sorted((r, f) for r, f in exp['written'])
        (r0, fs), (r1, fe) = wr[0], wr[-1]
        if all(efile[r] for r in range(r0, r1 + 1)):       # (FileParser refuses lines without fields)
            if r1 != r0:
                arr = par.transfer_array(r0, fs, rowend=r1, fieldend=fe)
            else:
                arr = par.transfer_array(r0, fs, fieldend=fe)
            want = [efile[r][f - 1] for r, f in wr]
            allint = all(isinstance(x, int) for x in want)
            got = [plain(x) for x in arr]
            if len(got) != len(want) or not all(same(w if allint else float(w), g) for w, g in zip(want, got)):
                return ('array-read', {'transfer_array': [r0, fs, r1, fe], 'obs': got, 'exp': want}, info)
    if numeric and act['n'] == 'Transfer2DArray':
        rs = min(r for r, _ in exp['written'])
        re_ = max(r for r, _ in exp['written'])
        fs = min(f for _, f in exp['written'])
        fe = max(f for _, f in exp['written'])
        arr = par.transfer_2Darray(rs, fs, re_, fieldend=fe)
        want = [[float(efile[r][f - 1]) for f in range(fs, fe + 1)] for r in range(rs, re_ + 1)]
        got = [[plain(x) for x in rr] for rr in arr]
        if [len(r) for r in got] != [len(r) for r in want] or \
                not all(same(w, g) for wr, gr in zip(want, got) for w, g in zip(wr, gr)):
            return ('array-read', {'transfer_2Darray': [rs, fs, re_, fe], 'obs': got, 'exp': want}, info)
    return None


class Reader:
    """FileParser objects (one per delimiter set, re-pointed at each generated file with set_file) and a
    memo of what transfer_var returned for a line text: FileParser tokenises line by line, so the fields
    of a line are a function of (delimiters, line text) and each distinct line is parsed once per process."""

    def __init__(self):
        self.par = {}
        self.memo = {}

    def parser(self, chars, fname):
        from openmdao.utils.file_wrap import FileParser
        p = self.par.get(chars)
        if p is None:
            p = self.par[chars] = FileParser()
            p.set_delimiters(chars)
        p.set_file(fname)
        p.reset_anchor()
        return p

    def fields(self, par, chars, i, text, eol):
        key = (chars, text, eol)
        got = self.memo.get(key)
        if got is None:
            got = []
            while True:
                try:
                    got.append(par.transfer_var(i, len(got) + 1))
                except IndexError:
                    break
                except Exception as e:      # noqa
                    got = '<%s>' % type(e).__name__
                    break
            self.memo[key] = got
        return got


READER = Reader()


# --------------------------------------------------------------------------------------------
# from a spec transition to concrete scenarios

def concretise(a, env, container='list'):
    n = a['n']
    if n == 'MarkAnchor':
        return {'n': n, 'anchor': ANCHOR[a['a']], 'occ': a['occ']}
    if n == 'TransferVar':
        return {'n': n, 'value': env[a['v']], 'row': a['row'], 'f': a['f']}
    if n == 'TransferArray':
        return {'n': n, 'value': [env[x] for x in a['vals']], 'container': container,
                'row': a['row'], 're': a.get('re', a['row']), 'fs': a['fs'], 'fe': a['fe']}
    if n == 'Transfer2DArray':
        return {'n': n, 'value': [[env[x] for x in row] for row in a['vals']],
                'rs': a['rs'], 're': a['re'], 'fs': a['fs'], 'fe': a['fe']}
    return dict(a)


def wrapped(a):
    return a['n'] == 'TransferArray' and a.get('re', a['row']) != a['row']


def slots_of(a):
    if a['n'] == 'TransferVar':
        return [a['v']]
    if a['n'] == 'TransferArray':
        return sorted(set(a['vals']))
    if a['n'] == 'Transfer2DArray':
        return sorted(set(x for row in a['vals'] for x in row))
    return []


def apply_spec(conc, raw, r, env):
    """Advance the concrete expected file by the spec's record of what the operation wrote."""
    if r['clr']:
        conc[r['clr'] - 1] = []
        raw[r['clr'] - 1] = []
    for (row, f, vid) in sorted(r['w']):
        line, rl = conc[row - 1], raw[row - 1]
        if f <= len(line):
            line[f - 1] = (vid, env[vid])
            rl[f - 1] = None
        elif f == len(line) + 1:
            line.append((vid, env[vid]))
            rl.append(None)
        else:
            raise MachineryError('spec wrote field %d of a %d-field line' % (f, len(line)))


class Binder:
    """Everything a worker needs to turn (source state, out-edge index) into concrete scenarios."""

    def __init__(self, graph, scen, tier, seed, workroot):
        self.g = graph
        self.scen = scen
        self.tier = tier
        self.seed = seed
        self.workroot = workroot

    def build(self, k, ei, cand_idx, tid):
        g = self.g
        sc, st = g.state[k]
        a, kt, r = g.adj[k][ei]
        scn = self.scen[sc - 1]
        delim = scn['delim']
        tmpl = scn['file']
        chars = DELIMS[delim]['chars']
        conc = [[(x, token(x, chars)[1]) for x in line] for line in tmpl]
        raw = [[token(x, chars)[0] for x in line] for line in tmpl]
        steps, pre = [], []
        for (pa, pk, pr) in g.path[k]:
            env = benign('float' if pa['n'] == 'Transfer2DArray' else 'mixed', chars)
            steps.append(concretise(pa, env))
            apply_spec(conc, raw, pr, env)
            pst = g.state[pk][1]
            if [[c[0] for c in ln] for ln in conc] != pst['file']:
                raise MachineryError('concrete file diverged from the spec state on the path')
            pre.append({'res': pr['r'], 'cur': pst['cur'], 'anch': pst['anch'], 'counts': [len(ln) for ln in conc]})
        slots = slots_of(a)
        cand = None
        container = 'list'
        if slots:
            cand = UNIVERSE[cand_idx]
            cls = vclass(cand)
            if a['n'] == 'Transfer2DArray':
                env = dict(benign(cls, chars))
            elif a['n'] == 'TransferArray' and cls == 'float' and (tid + cand_idx) % 2:
                env = dict(benign('float', chars))
                container = 'ndarray'
            else:
                env = dict(benign('mixed', chars))
            env[slots[(tid + cand_idx) % len(slots)]] = cand
        else:
            env = benign('mixed', chars)
        act = concretise(a, env, container)
        steps.append(act)
        nfields_before = [len(ln) for ln in conc]
        apply_spec(conc, raw, r, env)
        tst = g.state[kt][1]
        if [[c[0] for c in ln] for ln in conc] != tst['file']:
            raise MachineryError('concrete file diverged from the spec state')
        written = sorted((row - 1, f) for (row, f, _) in r['w'])
        overflow = any(f > nfields_before[row] for row, f in written)
        newline_at_end = (len(tmpl) == 4)
        S = {'sc': sc, 'lines': render(tmpl, delim, newline_at_end), 'delim': DELIMS[delim]['chars'],
             'sep': DELIMS[delim]['sep'], 'steps': steps, 'pre': pre, 'cand': cand,
             'overflow': overflow,
             # the array readers (2-3 more pyparsing passes over lines already read field by field):
             # every run in the thorough tier, every third run in the quick tier
             # (always for the wrapped arrays: the multi-line reader is what the spec's ReadArray describes)
             'api_read': self.tier != 'quick' or (tid + cand_idx) % 3 == 0 or wrapped(a),
             'row_is_last': bool(written) and written[0][0] == len(tmpl) - 1,
             'exp': {'res': r['r'], 'cur': tst['cur'], 'anch': tst['anch'],
                     'file': [[c[1] for c in ln] for ln in conc], 'raw': raw, 'written': written,
                     'addr': [[ANCHOR[p[0]], p[1]] for p in r['addr']]}}
        return S


_B = None       # Binder, inherited by forked workers


def _work(tasks):
    util.quiet()
    import warnings
    warnings.filterwarnings('ignore')
    b = _B
    wd = os.path.join(b.workroot, 'w%d' % os.getpid())
    os.makedirs(wd, exist_ok=True)
    out = {'n': 0, 'skipped': 0, 'viol': [], 'nontrivial': [], 'samples': [], 'by_action': {}}
    for (k, ei, tid, cands) in tasks:
        a = b.g.adj[k][ei][0]
        for ci in cands:
            S = b.build(k, ei, ci, tid)
            v = execute(S, wd)
            out['n'] += 1
            out['by_action'][a['n']] = out['by_action'].get(a['n'], 0) + 1
            if v is None:
                if S['exp']['written'] and (S['steps'][:-1] or S['exp']['anch']):
                    out['nontrivial'].append(tid * 64 + ci)
                if len(out['samples']) < 1 and S['overflow'] and len(S['steps']) > 1:
                    out['samples'].append(_printable({'template': S['lines'], 'delimiters': S['delim'],
                                                      'steps': S['steps'], 'spec_file_after': S['exp']['file'],
                                                      'read_back': 'every field agrees'}))
                continue
            if v[0] == 'skip':
                out['skipped'] += 1
                continue
            clause, observed, info = v
            out['viol'].append((_public(S), S['exp'], observed, clause, info))
    return out


def _public(S):
    """The scenario as stored in replay files: everything execute() needs except the expectation."""
    return {k: v for k, v in S.items() if k != 'exp'}


def _printable(o):
    """Non-finite floats as strings (evidence files stay strict JSON)."""
    if isinstance(o, float) and (o != o or abs(o) == INF):
        return repr(o)
    if isinstance(o, dict):
        return {k: _printable(v) for k, v in o.items()}
    if isinstance(o, (list, tuple)):
        return [_printable(v) for v in o]
    return o


# --------------------------------------------------------------------------------------------
# recognisers of the genuine defects found with this check (ids for known_findings.json)

def _neg_exp_text(v):
    return isinstance(v, float) and v == v and abs(v) != INF and \
        re.match(r'^-\d+e', ('%.16g' % v)) is not None


def pred_nonfinite_write(scenario, info):
    """transfer_var/_array/_2Darray of inf or nan into a template field raises in _getformat (int(val))."""
    e = info.get('exc', '')
    return info.get('clause') == 'write-raises' and (
        e.startswith('OverflowError: cannot convert float infinity to integer') or
        e.startswith('ValueError: cannot convert float NaN to integer'))


def pred_inf_token(scenario, info):
    """an infinity appended beyond the template is written 'inf'/'-inf', which FileParser reads as a string."""
    mm = info.get('mismatch') or []
    return info.get('clause') == 'read-back' and bool(mm) and \
        all(isinstance(m['exp'], float) and abs(m['exp']) == INF and m['obs'] in ('inf', '-inf') for m in mm)


def pred_neg_exponent(scenario, info):
    """a negative float printed without a decimal point ('-1e-05') is tokenised by FileParser as -1, 'e-05'."""
    mm = info.get('mismatch') or []
    if info.get('clause') != 'read-back' or not mm:
        return False
    first = [m for m in mm if m['how'] == 'transfer_var'][:1]
    return bool(first) and _neg_exp_text(first[0]['exp']) and isinstance(first[0]['obs'], int) and \
        not isinstance(first[0]['obs'], bool)


def pred_overflow_eol(scenario, info):
    """transfer_array with more values than fields drops the line end, gluing the next line on."""
    return info.get('clause') == 'line-structure' and info.get('overflow') and not info.get('row_is_last') and \
        info.get('action', {}).get('n') == 'TransferArray'


def pred_delim_regex(scenario, info):
    """set_delimiters puts the characters unescaped into a regular-expression character class: with ']' no
    field matches any more (the write is silently dropped), a '-' in last position raises re.error."""
    return any(c in (info.get('delim') or '') for c in ']-^\\') and \
        info.get('clause') in ('delimiters-rejected', 'read-back', 'other-field', 'line-structure', 'array-read',
                               'anchor-read', 'write-raises')


def _int_text(v):
    return isinstance(v, float) and v == v and abs(v) != INF and int(v) != v and \
        ('%.16g' % v).lstrip('-').isdigit()


def pred_float_int_token(scenario, info):
    """a non-integral float whose 16 significant digits have no fraction is written without a decimal point
    ('%.16g' gives '1' for 1.0000000000000002) and read back as an int."""
    mm = [m for m in (info.get('mismatch') or []) if m.get('how') == 'transfer_var']
    return info.get('clause') == 'read-back' and bool(mm) and \
        all(_int_text(m['exp']) and isinstance(m['obs'], int) and not isinstance(m['obs'], bool) for m in mm)


PREDICATES = {'C29-nonfinite-write-raises': pred_nonfinite_write,
              'C29-inf-written-unparsable': pred_inf_token,
              'C29-negative-exponent-float-split': pred_neg_exponent,
              'C29-array-overflow-drops-newline': pred_overflow_eol,
              'C29-delimiter-regex-unescaped': pred_delim_regex,
              'C29-float-16-digits-written-as-int': pred_float_int_token}


# --------------------------------------------------------------------------------------------

PROPS = '''INVARIANT TypeOK
INVARIANT AddrSound
PROPERTY ReadBack
PROPERTY ArrayReadBack
PROPERTY OthersUnchanged
PROPERTY WritesWellFormed
PROPERTY AnchorSemantic
PROPERTY RejectLeaves
PROPERTY AnchorStable
'''

CHECK_CFG = '''CONSTANTS
  Scenarios <- %s
  MaxLen = 5
  MaxDepth = %d
  WrapRows <- %s
INIT Init
NEXT Next
VIEW View
INVARIANT TypeOK
INVARIANT AddrSound
PROPERTY ReadBack
PROPERTY ArrayReadBack
PROPERTY OthersUnchanged
PROPERTY WritesWellFormed
PROPERTY AnchorSemantic
PROPERTY RejectLeaves
PROPERTY AnchorStable
'''

# (the export runs check the properties too: the wrapped arrays are explored there, to the depth that is bound)
EXPORT_CFG = '''CONSTANTS
  Scenarios <- %s
  MaxLen = 5
  MaxDepth = %d
  WrapRows <- %s
INIT Init
NEXT XNext
VIEW View
INVARIANT ExportInit
''' + PROPS


def _replay(ctx):
    """./check C29 --replay <file>: the stored concrete scenario is executed again against the stored expectation
    (the spec's file state); TLC re-checks the spec's properties on a small bound."""
    cfg = ctx.write_cfg('FileWrapMC.cfg', CHECK_CFG % ('TwoScenarios', 2, 'WrapQuick'))
    ctx.tlc_check('mech/FileWrapMC', cfg, timeout=600, workers=int(os.environ.get('VERIF_TLC_WORKERS', '8')))
    with open(ctx.replay) as f:
        rec = json.load(f)
    S = dict(rec['scenario'], exp=rec['expected'])
    wd = os.path.join(ctx.work, 'replay')
    os.makedirs(wd, exist_ok=True)
    util.quiet()
    v = execute(S, wd)
    ctx.impl = ctx.evaluations = 1
    ctx.rule = 'replay of one stored scenario'
    ctx.sample({'replayed': ctx.replay, 'verdict': None if v is None else v[0]})
    if v is not None and v[0] != 'skip':
        info = dict(v[2], clause=v[0])
        ctx.violation(rec['scenario'], rec['expected'], v[1], v[0], info=info)
    else:
        print('replay: %s' % ('the stored scenario now agrees with the spec' if v is None else v[1]))


def run(ctx):
    global _B
    ctx.register_predicates(PREDICATES)
    if getattr(ctx, 'replay', None):
        return _replay(ctx)
    quick = ctx.tier == 'quick'
    workers = int(os.environ.get('VERIF_TLC_WORKERS', '8'))
    # 1. the design: exhaustive check of the spec's own properties on all operation sequences
    #    (plain operations to depth 3; the wrapped arrays are checked by the export runs below, to depth 2)
    cfg = ctx.write_cfg('FileWrapMC.cfg', CHECK_CFG % (('TwoScenarios', 3, 'WrapNone') if quick else
                                                       ('AllScenarios', 3, 'WrapNone')))
    ctx.tlc_check('mech/FileWrapMC', cfg, timeout=1500, workers=workers)
    ctx.require_actions(['Init', 'MarkAnchor', 'ResetAnchor', 'TransferVar', 'TransferArray', 'Transfer2DArray',
                         'ClearLine'])
    # 2. export every transition of the graph used for binding; 3. one implementation run per
    #    (transition, candidate value).  jobs: (scenarios, depth, only the deepest level with k seeded candidates)
    #    wrapped (multi-line) arrays: WrapRows of the job, a seeded subset of the candidates per transition;
    #    delimiter sets with regular-expression specials: every first operation on the template
    if quick:
        jobs = [('TwoScenarios', 2, None, 'WrapQuick'), ('DelimScenarios', 1, None, 'WrapQuick')]
    else:
        jobs = [('AllScenarios', 2, None, 'WrapAll'), ('DeepScenarios', 3, 2, 'WrapNone'),
                ('DelimScenariosAll', 1, None, 'WrapAll')]
    wrap_k = 5 if quick else 6
    rng = random.Random(ctx.seed)
    nu = len(UNIVERSE)
    res = []
    n_edges = n_states = 0
    tid = 0
    n_wrapped = 0
    for (scn_name, depth, deepest, wrap) in jobs:
        cfg = ctx.write_cfg('FileWrapMC_export_%s_%d.cfg' % (scn_name, depth), EXPORT_CFG % (scn_name, depth, wrap))
        x = ctx.tlc_run('mech/FileWrapMC', cfg, coverage=False, timeout=1500, heap='12g', workers=workers)
        if x.violated or x.assume_false or x.error or not x.finished:
            raise MachineryError('export / property check of the bound graph failed:\n' + x.tail())
        scen = x.exports('SCN')
        if len(scen) < 1:
            raise MachineryError('no scenario export')
        scen = scen[0]
        edges = x.exports('EXP')
        inits = x.exports('INI')
        if len(edges) != x.generated - len(inits):
            raise MachineryError('export incomplete: %d edges printed, %d transitions generated'
                                 % (len(edges), x.generated - len(inits)))
        del x
        # the bound graph: every state that the plain operations reach (shortest paths of plain operations),
        # every plain transition, and every wrapped-array transition that leaves one of these states
        for e in edges:
            e['kf'], e['kt'] = graph_key(e['sc'], e['f']), graph_key(e['sc'], e['t'])
        succ = {}
        for e in edges:
            if not wrapped(e['a']):
                succ.setdefault(e['kf'], set()).add(e['kt'])
        # (the state key has no operation count: a state that plain operations reach with the last operation
        #  of the bound may also be reached earlier through a wrapped array and then has successors in the
        #  export; the sources of the bound graph are the states plain operations reach in < depth steps)
        level = [set(graph_key(i['sc'], i['f']) for i in inits)]
        plain = set(level[0])
        for _ in range(depth - 1):
            nxt = set()
            for kf in level[-1]:
                nxt |= succ.get(kf, set()) - plain
            plain |= nxt
            level.append(nxt)
        g = Graph([e for e in edges if not wrapped(e['a']) and e['kf'] in plain], inits)
        if max(len(pth) for pth in g.path.values()) > depth:
            raise MachineryError('bound graph deeper than the bound')
        seen = set()
        for e in edges:
            if not wrapped(e['a']):
                continue
            kf, kt = e['kf'], e['kt']
            ek = (kf, json.dumps(e['a'], sort_keys=True))
            if kf in plain and ek not in seen:
                seen.add(ek)
                g.state.setdefault(kt, (e['sc'], e['t']))
                g.adj.setdefault(kf, []).append((e['a'], kt, e.get('r')))
        del edges, seen, succ, plain, level
        tasks = []
        for k in g.path:
            if deepest is not None and len(g.path[k]) < depth - 1:
                continue            # these source states were bound exhaustively by the previous job
            for ei, (a, kt, r) in enumerate(g.adj.get(k, ())):
                if a['n'] == 'TransferVar' and a['v'] != 101:
                    continue        # as a last step the slots 101/102 give the same concrete runs
                tid += 1
                n_edges += 1
                chars = DELIMS[scen[g.state[k][0] - 1]['delim']]['chars']
                adm = [i for i in range(nu) if admissible(UNIVERSE[i], chars)]
                if not slots_of(a):
                    cands = [0]
                elif deepest is not None:
                    cands = sorted(rng.sample(adm, deepest))
                elif wrapped(a):
                    cands = sorted(rng.sample(adm, wrap_k))
                else:
                    cands = adm
                n_wrapped += wrapped(a)
                tasks.append((k, ei, tid, cands))
            n_states += 1
        if wrap != 'WrapNone' and not any(wrapped(g.adj[k][ei][0]) for (k, ei, _, _) in tasks):
            raise MachineryError('vacuous: no wrapped-array transition in the graph of %s' % scn_name)
        rng.shuffle(tasks)
        _B = Binder(g, scen, ctx.tier, ctx.seed, ctx.work)
        gc.collect()
        gc.freeze()             # keep the graph out of the workers' collectors (copy-on-write pages)
        nproc = min(16, os.cpu_count() or 1)
        res += util.pmap(_work, util.split(tasks, nproc * 4), nproc=nproc)
        _B = None
        gc.unfreeze()
        del g, tasks
    ctx.extra['graph_states'] = n_states
    ctx.extra['graph_transitions'] = n_edges
    ctx.extra['graph_transitions_wrapped_array'] = n_wrapped
    n = sum(o['n'] for o in res)
    skipped = sum(o['skipped'] for o in res)
    by_action = {}
    for o in res:
        for kk, vv in o['by_action'].items():
            by_action[kk] = by_action.get(kk, 0) + vv
        for key in o['nontrivial']:
            ctx.note_nontrivial(key)
        for s in o['samples']:
            ctx.sample(s, limit=2)
    viol = [v for o in res for v in o['viol']]
    viol.sort(key=lambda v: (v[3], json.dumps(v[0]['steps'], default=repr, sort_keys=True)))
    # report round-robin over the classes (clause, operation), so that the printed examples differ
    rank, order = {}, []
    for i, v in enumerate(viol):
        c = (v[3], v[4]['action']['n'])
        rank[c] = rank.get(c, 0) + 1
        order.append((rank[c], i))
    viol = [viol[i] for _, i in sorted(order)]
    classes = {}
    for (scenario, expected, observed, clause, info) in viol:
        info = dict(info, clause=clause)
        ctx.violation(scenario, expected, observed, clause,
                      snippet='replay with: ./check C29 --replay <this file>', info=info)
        key = '%s/%s/%s' % (clause, info['action']['n'], repr(scenario['cand']))
        classes[key] = classes.get(key, 0) + 1
    if classes:
        print('C29 violation classes (clause/action/value class: scenarios):')
        for kk in sorted(classes):
            print('  %-60s %d' % (kk, classes[kk]))
    ctx.extra['violation_classes'] = classes
    ctx.extra['runs_by_action'] = by_action
    ctx.extra['runs_skipped_prefix_disagrees'] = skipped
    ctx.extra['value_universe'] = [repr(v) for v in UNIVERSE]
    ctx.impl = n_edges
    ctx.evaluations = n
    ctx.exhaustive = False      # the wrapped-array transitions run with a seeded subset of the candidate values
    if not ctx.samples:
        ctx.sample({'note': 'no passing array-overflow sample', 'runs': n})
    ctx.rule = ('every transition of the FileWrap state graph (2 templates x 2 delimiter sets, all operation '
                'sequences of length <= %s over mark_anchor(2 anchors, occurrence +-1, +-2), reset_anchor, transfer_var, '
                'transfer_array (exact / longer than the template), transfer_2Darray, clearline, every row offset and '
                'field) is executed on a real InputFileGenerator driven by real API calls from the rendered template, '
                '%s; transfer_array with row_end (array wrapped over %s lines, every first and last field, exact or '
                'one value longer) is executed as the last operation from every state of that graph with %d seeded '
                'candidate values and read back with the multi-line FileParser.transfer_array; delimiter sets with '
                'regular-expression specials (" ]", " -"): every first operation on the template; the generated '
                'file is read back completely with FileParser; non-trivial = a passing write run '
                'that starts from a non-initial generator state (anchor set or file already modified)'
                % ('2; quick tier: each template with one delimiter set' if quick else '3',
                   'once for each of the %d candidate values of its value slot' % nu if quick else
                   'for every candidate value up to length 2 (both templates x both delimiter sets), two seeded '
                   'candidates per transition for the third operation (one template)',
                   '2' if quick else '2 and 3', wrap_k))
    ctx.assumptions = [
        'values: ' + ', '.join(repr(v) for v in UNIVERSE) + '; one candidate per array, other elements benign',
        'float equality is to 16 significant digits: read == written or read == float("%.16g" % written); the sign of zero counts',
        'anchor texts never occur inside written values; no value text contains a delimiter character (with "-" as '
        'a delimiter only non-negative values without a negative exponent are written); strings do not look like '
        'numbers; bool is not a value type of the property (it is written as "True"/"False", a string token)',
        'a float must be read back as a float also when its 16 significant digits have no fraction '
        '(1.0000000000000002 -> 1.0, not the int 1)',
        'mark_anchor follows the semantic pinned by the repository tests: with an anchor set the old anchor line '
        '(forward) and the last line of the file (backward) are not candidates',
        'row offsets that leave the file (Python negative-index wrap-around), field numbers that do not exist, arrays '
        'shorter than the addressed locations, arrays longer than a location range that does not end the last line, '
        'the multi-line reader over a line without fields (FileParser refuses empty lines) and the "columns" '
        'delimiter mode are outside the specification',
        'TLC checks the plain operations to depth 3 and, in the export runs, all operations including the wrapped '
        'arrays to depth 2',
    ]
