"""C05 - index objects follow NumPy indexing semantics.

Spec: spec/lib/NdIndex.tla (library: Positions / ResultShape / Valid / ComposePositions / Chain / Array2Slice) and
spec/mech/NdIndexMC.tla (enumeration).  TLC enumerates every index specification of the bounded grammar over every
shape in scope, both flat_src settings, two-stage chains and all arrays in scope for array2slice, checks the internal
laws (LenLaw, RangeLaw, FlatLaw, IdentityLaw, ApiLaw, InjectiveLaw, ComposeLaw, A2SLaw, SliceBackLaw) and exports, per
scenario, the spec's positions and result shape.

The driver then, for every exported scenario,
 (a) ORACLE SELF-CHECK: evaluates the same index with NumPy (np.arange(size).reshape(shape)[idx], on the flattened
     array when flat_src) - a disagreement with the spec is a MachineryError (the spec is wrong), never a violation;
 (b) BINDING: builds openmdao.utils.indexer.indexer(idx, src_shape=shape, flat_src=flat) along three construction
     paths (src_shape= argument, set_src_shape afterwards, set_src_shape after having been shaped differently), for
     ndarray and (first path) list spellings of index arrays, through om.slicer where the index has no array, and compares
     shaped_array() (exact), as_array() and flat() (applied to the flat source), indexed_src_shape, indexed_src_size and
     indexed_val(arange) with the spec; array2slice(arr) (and indexer(..., try_slice=True)) must select the positions
     the spec gives for arr.
Specifications that OpenMDAO rejects (it is stricter than NumPy, e.g. slices that leave the source) and specifications
that NumPy rejects are counted, not compared."""
import collections
import hashlib
import json
import os
import random

from ..tlc import MachineryError
from ..util import pmap, split

NONE = 99999
NPROC = int(os.environ.get('VERIF_PROCS', '8'))
TLC_WORKERS = int(os.environ.get('VERIF_TLC_WORKERS', '8'))

LAWS = ['LenLaw', 'RangeLaw', 'FlatLaw', 'IdentityLaw', 'ApiLaw', 'InjectiveLaw', 'ComposeLaw', 'A2SLaw',
        'SliceBackLaw']


# ------------------------------------------------------------------------------------------------------------
# spec term <-> python index
def has_array(t):
    k = t['k']
    if k in ('arr', 'arr2'):
        return True
    if k == 'tuple':
        return any(has_array(x) for x in t['t'])
    return False


def py_index(t, form='nd'):
    """The Python index object for a spec term.  form: 'nd' index arrays as ndarray, 'list' as (nested) lists."""
    import numpy as np
    k = t['k']
    if k == 'int':
        return int(t['i'])
    if k == 'slice':
        return slice(*[None if x == NONE else int(x) for x in (t['a'], t['b'], t['s'])])
    if k == 'arr':
        return np.array(t['v'], dtype=int) if form == 'nd' else [int(x) for x in t['v']]
    if k == 'arr2':
        return np.array(t['m'], dtype=int) if form == 'nd' else [[int(x) for x in r] for r in t['m']]
    if k == 'ell':
        return Ellipsis
    if k == 'tuple':
        return tuple(py_index(x, form) for x in t['t'])
    raise MachineryError('unknown term %r' % (t,))


def through_slicer(idx):
    """om.slicer[...] spelling of an index without arrays (the documented user-facing way to write slices)."""
    import openmdao.api as om
    return om.slicer[idx]


def show(t):
    """Readable python spelling of a term (for messages)."""
    k = t['k']
    if k == 'int':
        return str(t['i'])
    if k == 'slice':
        return 'slice(%s)' % ','.join('None' if x == NONE else str(x) for x in (t['a'], t['b'], t['s']))
    if k == 'arr':
        return 'array(%s)' % (list(t['v']),)
    if k == 'arr2':
        return 'array(%s)' % ([list(r) for r in t['m']],)
    if k == 'ell':
        return '...'
    return '(' + ', '.join(show(x) for x in t['t']) + (',)' if len(t['t']) == 1 else ')')


def prod(sh):
    n = 1
    for x in sh:
        n *= int(x)
    return n


def numpy_ref(idx, shape, flat, base=None):
    """(positions, shape) of NumPy's result, or None when NumPy rejects the index."""
    import numpy as np
    if base is None:
        base = np.arange(prod(shape)).reshape(shape)
    if flat:
        base = base.ravel()
    try:
        r = np.asarray(base[idx])
    except (IndexError, ValueError, TypeError):
        return None
    return [int(x) for x in r.ravel()], [int(x) for x in r.shape], r


# ------------------------------------------------------------------------------------------------------------
# observation of the implementation
METHODS = ('shaped_array', 'as_array', 'flat', 'indexed_src_shape', 'indexed_src_size', 'indexed_val')
PATHS = ('src_shape=', 'set_src_shape', 're-shaped')


def make_indexer(idx, shape, flat, path, try_slice=False):
    from openmdao.utils.indexer import indexer
    if path == 0:
        return indexer(idx, src_shape=shape, flat_src=flat, try_slice=try_slice)
    ix = indexer(idx, flat_src=flat, try_slice=try_slice)
    if path == 2:
        try:        # shape it for a different source first (fills the shaped-instance cache), then for the real one
            ix.set_src_shape(tuple(e + 1 for e in shape))
            ix.shaped_array()
        except Exception:
            pass
    ix.set_src_shape(shape)
    return ix


def observe(ix, shape):
    """{method: value | 'ERR ...'} with positions normalised to lists of ints."""
    import numpy as np
    size = prod(shape)
    flatsrc = np.arange(size)
    out = {}

    def rec(name, fn):
        try:
            out[name] = fn()
        except Exception as e:      # noqa
            out[name] = 'ERR %s: %s' % (type(e).__name__, str(e)[:120])

    rec('shaped_array', lambda: [int(x) for x in np.asarray(ix.shaped_array()).ravel()])
    rec('as_array', lambda: [int(x) for x in np.asarray(flatsrc[np.asarray(ix.as_array())]).ravel()])
    rec('flat', lambda: [int(x) for x in np.asarray(flatsrc[ix.flat()]).ravel()])
    rec('indexed_src_shape', lambda: [int(x) for x in ix.indexed_src_shape])
    rec('indexed_src_size', lambda: int(ix.indexed_src_size))
    rec('indexed_val', lambda: [int(x) for x in np.asarray(ix.indexed_val(flatsrc.reshape(shape))).ravel()])
    return out


def expected_of(v):
    return {'shaped_array': v['pos'], 'as_array': v['pos'], 'flat': v['pos'], 'indexed_src_shape': v['rs'],
            'indexed_src_size': prod(v['rs']), 'indexed_val': v['pos']}


def run_index_scenario(s, v, res):
    """single / mixed / ext scenario: self-check against NumPy, then bind to the indexer."""
    shape = tuple(int(x) for x in s['shape'])
    flat = bool(s['flat'])
    t = s['idx']
    forms = ['nd', 'list'] if has_array(t) else ['nd']
    # (a) oracle self-check, for every spelling
    for form in forms:
        ref = numpy_ref(py_index(t, form), shape, flat)
        if (ref is None) != (not v['ok']) or (ref is not None and (ref[0] != v['pos'] or ref[1] != v['rs'])):
            res['mach'].append('spec != NumPy for %s shape=%s flat=%s (%s): spec ok=%s pos=%s rs=%s numpy=%s' % (
                show(t), shape, flat, form, v['ok'], v['pos'], v['rs'], None if ref is None else ref[:2]))
            return
    res['selfchecked'] += 1
    if not v['ok']:
        # NumPy rejects it: the property says nothing; record what OpenMDAO does
        try:
            make_indexer(py_index(t), shape, flat, 0)
            res['numpy_invalid_accepted'] += 1
        except Exception:
            res['numpy_invalid_rejected'] += 1
        return
    if t['k'] == 'arr2':
        # a NON-tuple 2-D index array: OpenMDAO documents (deprecation warning) that it reads it as a tuple of its
        # rows, which is not what NumPy does with the same object - a declared deviation, not compared
        res['bare_2d_not_compared'] += 1
        return
    exp = expected_of(v)
    fails = {}
    compared = False
    spellings = [(f, False) for f in forms] + ([] if has_array(t) else [('nd', True)])
    for form, slicer in spellings:
        # the list and om.slicer spellings: first construction path only
        for path in (range(3) if form == 'nd' and not slicer else range(1)):
            idx = py_index(t, form)
            if slicer:
                idx = through_slicer(idx)
            try:
                ix = make_indexer(idx, shape, flat, path)
            except Exception as e:
                res['rejected'][type(e).__name__ + ': ' + _rej_class(str(e))] += 1
                if path == 0:
                    break       # rejected by OpenMDAO: the other construction paths are not compared either
                fails['construction/%s%s/%s' % (form, '+slicer' if slicer else '', PATHS[path])] = \
                    'ERR %s: %s' % (type(e).__name__, str(e)[:120])
                continue
            compared = True
            obs = observe(ix, shape)
            res['evals'] += len(obs)
            for m in METHODS:
                if obs[m] != exp[m]:
                    fails['%s/%s%s/%s' % (m, form, '+slicer' if slicer else '', PATHS[path])] = obs[m]
    if t['k'] == 'arr':
        # array2slice in scope: the same array with try_slice=True must select the same positions
        try:
            ix = make_indexer(py_index(t), shape, flat, 0, try_slice=True)
            obs = observe(ix, shape)
            res['evals'] += len(obs)
            for m in METHODS:
                if obs[m] != exp[m]:
                    fails['%s/nd/try_slice' % m] = obs[m]
        except Exception as e:
            res['rejected'][type(e).__name__ + ': ' + _rej_class(str(e))] += 1
    if not compared:
        res['valid_rejected'] += 1
        return
    res['compared'] += 1
    if v['pos'] != list(range(prod(shape))):
        res['nontrivial'].append(skey(s))
    if fails:
        res['viol'].append({'scenario': s, 'expected': {'positions': v['pos'], 'result_shape': v['rs']},
                            'observed': fails, 'methods': sorted({k.split('/')[0] for k in fails})})
    elif len(res['samples']) < 2 and len(v['pos']) > 2 and has_array(t) and t['k'] == 'tuple':
        res['samples'].append({'index': show(t), 'shape': list(shape), 'flat_src': flat,
                               'spec_positions': v['pos'], 'spec_result_shape': v['rs']})


def _rej_class(msg):
    import re
    return re.sub(r'[-\d]+', 'N', msg)[:60]


def run_chain_scenario(s, v, res):
    import numpy as np
    shape = tuple(int(x) for x in s['shape'])
    f1, f2 = bool(s['flat']), bool(s['flat2'])
    t1, t2 = s['idx'], s['idx2']
    r1 = numpy_ref(py_index(t1), shape, f1)
    r2 = None
    if r1 is not None:
        r2 = numpy_ref(py_index(t2), tuple(r1[1]), f2, base=r1[2])
    if (r2 is None) != (not v['ok']) or (r2 is not None and (r2[0] != v['pos'] or r2[1] != v['rs'])):
        res['mach'].append('spec chain != NumPy for x%s[%s]%s[%s] shape=%s: spec %s numpy %s' % (
            '.ravel()' if f1 else '', show(t1), '.ravel()' if f2 else '', show(t2), shape, v,
            None if r2 is None else r2[:2]))
        return
    res['selfchecked'] += 1
    if not v['ok']:
        return
    if t1['k'] == 'arr2' or t2['k'] == 'arr2':
        res['bare_2d_not_compared'] += 1
        return
    # binding: indexed_val / indexed_src_shape applied twice (this is how OpenMDAO walks a src_indices chain)
    try:
        ix1 = make_indexer(py_index(t1), shape, f1, 0)
        sh1 = tuple(ix1.indexed_src_shape)
        ix2 = make_indexer(py_index(t2), sh1, f2, 0)
    except Exception as e:
        res['rejected'][type(e).__name__ + ': ' + _rej_class(str(e))] += 1
        res['valid_rejected'] += 1
        return
    fails = {}
    try:
        a1 = np.asarray(ix1.indexed_val(np.arange(prod(shape)).reshape(shape))).reshape(sh1)
        a2 = np.asarray(ix2.indexed_val(a1))
        got = [int(x) for x in a2.ravel()]
        gshape = [int(x) for x in ix2.indexed_src_shape]
    except Exception as e:
        got = gshape = 'ERR %s: %s' % (type(e).__name__, str(e)[:120])
    res['evals'] += 2
    if got != v['pos']:
        fails['chain indexed_val'] = got
    if gshape != v['rs']:
        fails['chain indexed_src_shape'] = gshape
    res['compared'] += 1
    res['nontrivial'].append(skey(s))
    if fails:
        res['viol'].append({'scenario': s, 'expected': {'positions': v['pos'], 'result_shape': v['rs']},
                            'observed': fails, 'methods': sorted(fails)})


def slice_term(sl):
    return None if sl is None else [sl.start, sl.stop, sl.step]


def run_a2s_scenario(s, v, res):
    import numpy as np
    from openmdao.utils.indexer import array2slice, indexer
    arr = [int(x) for x in s['arr']]
    # self-check of the spec's own conversion and of its positions for arr
    a2s = v['a2s']
    for n, pa in zip(v['ns'], v['pa']):
        ref = [int(x) for x in np.arange(n)[np.array(arr, dtype=int)]]
        if ref != pa:
            res['mach'].append('spec Positions(arr) != NumPy for arr=%s n=%d' % (arr, n))
            return
        if a2s['k'] == 'slice':
            sl = slice(*[None if x == NONE else x for x in (a2s['a'], a2s['b'], a2s['s'])])
            if [int(x) for x in np.arange(n)[sl]] != arr:
                res['mach'].append('spec Array2Slice(%s)=%s does not reproduce arr for n=%d' % (arr, sl, n))
                return
    res['selfchecked'] += 1
    fails = {}
    sl = array2slice(np.array(arr, dtype=int))
    res['evals'] += 1
    if sl is None:
        res['a2s_none'] += 1
        if a2s['k'] == 'slice':
            res['a2s_missed'] += 1        # a slice exists but none was produced: allowed (no position changes)
    else:
        res['a2s_slice'] += 1
        if not isinstance(sl, slice):
            fails['array2slice'] = repr(sl)
        else:
            for n, pa in zip(v['ns'], v['pa']):
                got = [int(x) for x in np.arange(n)[sl]]
                if got != pa:
                    fails['array2slice n=%d' % n] = {'slice': slice_term(sl), 'positions': got}
    # the way OpenMDAO itself uses it
    for n, pa in zip(v['ns'], v['pa']):
        try:
            ix = indexer(np.array(arr, dtype=int), src_shape=(n,), flat_src=True, try_slice=True)
        except Exception as e:
            res['rejected'][type(e).__name__ + ': ' + _rej_class(str(e))] += 1
            continue
        try:
            got = [int(x) for x in np.asarray(ix.shaped_array()).ravel()]
        except Exception as e:
            got = 'ERR %s: %s' % (type(e).__name__, str(e)[:120])
        res['evals'] += 1
        if got != pa:
            fails['indexer(try_slice=True).shaped_array n=%d' % n] = got
    res['compared'] += 1
    if len(arr) > 1:
        res['nontrivial'].append(skey(s))
    if fails:
        res['viol'].append({'scenario': s, 'expected': {'positions_by_n': dict(zip(map(str, v['ns']), v['pa'])),
                                                        'spec_slice': a2s},
                            'observed': fails, 'methods': ['array2slice']})


def skey(s):
    return hashlib.md5(json.dumps(s, sort_keys=True).encode()).hexdigest()[:14]


def new_res():
    return {'mach': [], 'viol': [], 'nontrivial': [], 'samples': [], 'selfchecked': 0, 'compared': 0, 'evals': 0,
            'valid_rejected': 0, 'numpy_invalid_accepted': 0, 'numpy_invalid_rejected': 0,
            'rejected': collections.Counter(), 'bare_2d_not_compared': 0, 'a2s_none': 0, 'a2s_slice': 0, 'a2s_missed': 0,
            'by_class': collections.Counter()}


def run_one(e, res):
    s, v = e['s'], e['v']
    res['by_class'][s['c'] + ('/supplied' if 'ext_id' in s else '')] += 1
    if s['c'] == 'chain':
        run_chain_scenario(s, v, res)
    elif s['c'] == 'a2s':
        run_a2s_scenario(s, v, res)
    else:
        run_index_scenario(s, v, res)


def _worker(chunk):
    from ..util import quiet
    quiet()
    res = new_res()
    for e in chunk:
        try:
            run_one(e, res)
        except MachineryError:
            raise
        except Exception as ex:     # a bug of the harness must never look like a pass or a violation
            res['mach'].append('harness exception on %s: %s: %s' % (json.dumps(e['s'])[:300], type(ex).__name__, ex))
        if len(res['mach']) > 20:
            break
    res['rejected'] = dict(res['rejected'])
    res['by_class'] = dict(res['by_class'])
    return res


# ------------------------------------------------------------------------------------------------------------
# seeded random larger scenarios (thorough, a few in quick): written to an ndjson file that NdIndexMC reads
def T_int(i):
    return {'k': 'int', 'i': int(i)}


def T_slice(a, b, s):
    return {'k': 'slice', 'a': NONE if a is None else int(a), 'b': NONE if b is None else int(b),
            's': NONE if s is None else int(s)}


def rand_term(rnd, n, common_len, allow2d=True):
    """random term for an axis of extent n; mostly valid"""
    r = rnd.random()
    slack = 1 if rnd.random() < 0.06 else 0        # now and then out of range
    if r < 0.2:
        return T_int(rnd.randint(-n - slack, n - 1 + slack))
    if r < 0.55:
        def part():
            return None if rnd.random() < 0.3 else rnd.randint(-n - 1, n + 1)
        return T_slice(part(), part(), rnd.choice([None, 1, -1, 2, -2, 3, -3, n, -n]))
    ent = lambda: rnd.randint(-n - slack, n - 1 + slack)
    if r < 0.9 or not allow2d:
        ln = common_len if rnd.random() < 0.8 else rnd.choice([0, 1, 1, 2, 5])
        return {'k': 'arr', 'v': [ent() for _ in range(ln)]}
    rows = rnd.choice([1, 2, 3])
    cols = common_len if rnd.random() < 0.7 else 1
    return {'k': 'arr2', 'm': [[ent() for _ in range(cols)] for _ in range(rows)]}


def rand_index(rnd, eff, common):
    """random index for a source of (effective) shape eff"""
    if rnd.random() < 0.25:
        return rand_term(rnd, eff[0], common)
    L = rnd.randint(0, len(eff))
    if rnd.random() < 0.03:
        L = len(eff) + 1        # too many indices
    ell = None
    if rnd.random() < 0.4:
        ell = rnd.randint(0, min(L, len(eff)))
    terms = []
    for j in range(L):
        ax = j if (ell is None or j < ell) else len(eff) - L + j
        ax = max(0, min(len(eff) - 1, ax))
        terms.append(rand_term(rnd, eff[ax], common))
    if ell is not None:
        terms.insert(ell, {'k': 'ell'})
    return {'k': 'tuple', 't': terms}


def rand_scenarios(rnd, count, max_size):
    """scenarios in the format NdIndexMC reads from ExtFile: mostly single indices, some two-stage chains"""
    out = []
    while len(out) < count:
        rank = rnd.choice([1, 2, 2, 3, 3, 4])
        shape = [rnd.randint(1, 7 if rank < 3 else 5) for _ in range(rank)]
        if prod(shape) > max_size:
            continue
        flat = rnd.random() < 0.3
        eff = [prod(shape)] if flat else shape
        idx = rand_index(rnd, eff, rnd.choice([1, 2, 3, 4]))
        if rnd.random() < 0.85:
            out.append({'c': 'idx', 'shape': shape, 'flat': flat, 'idx': idx})
            continue
        # a chain: the second index is drawn for the shape of the intermediate array (NumPy is used here only to
        # steer the random choice towards valid chains; the expectation comes from the spec)
        ref = numpy_ref(py_index(idx), tuple(shape), flat)
        if ref is None or len(ref[1]) == 0 or len(ref[0]) > max_size or 0 in ref[1]:
            continue
        flat2 = rnd.random() < 0.3
        eff2 = [prod(ref[1])] if flat2 else ref[1]
        out.append({'c': 'chain', 'shape': shape, 'flat': flat, 'idx': idx, 'flat2': flat2,
                    'idx2': rand_index(rnd, eff2, rnd.choice([1, 2, 3]))})
    return out


# ------------------------------------------------------------------------------------------------------------
# genuine defects found by this check (predicates for known_findings.json); each recognises exactly the scenarios
# that fail because of one defect.  A chain scenario is judged stage by stage.
def _stages(s):
    """The index scenarios contained in a scenario: [{'shape', 'flat', 'idx'}]."""
    if s.get('c') == 'a2s' or 'idx' not in s:
        return []
    st = [{'shape': list(s['shape']), 'flat': bool(s['flat']), 'idx': s['idx']}]
    if s.get('c') == 'chain':
        ref = numpy_ref(py_index(s['idx']), tuple(s['shape']), bool(s['flat']))
        if ref is not None:
            st.append({'shape': ref[1], 'flat': bool(s['flat2']), 'idx': s['idx2']})
    return st


def _axis_terms(st):
    """(effective shape, [(term, extent of the axis it meets)], number of axes the ellipsis stands for or None)"""
    shape = [prod(st['shape'])] if st['flat'] else list(st['shape'])
    t = st['idx']
    ts = t['t'] if t['k'] == 'tuple' else [t]
    nterms = sum(1 for x in ts if x['k'] != 'ell')
    out, j, width = [], 0, None
    for x in ts:
        if x['k'] == 'ell':
            width = len(shape) - nterms
            j += width
            continue
        if 0 <= j < len(shape):
            out.append((x, shape[j]))
        j += 1
    return shape, out, width


def _any_stage(fn):
    def pred(s, info):
        return any(fn(st, info) for st in _stages(s))
    return pred


def _nontuple_nd(st, info):
    """A NON-tuple int / index array / slice applied to a non-flat source of rank >= 2: shaped_array(), as_array()
    and flat() (for a slice: flat()) give positions as if the index addressed the flattened source, while
    indexed_src_shape / indexed_src_size / indexed_val follow NumPy (the index selects along the first axis)."""
    return (st['idx']['k'] in ('int', 'arr', 'slice') and not st['flat'] and len(st['shape']) >= 2 and
            (st is not info.get('_first') or set(info.get('methods', [])) <= {'shaped_array', 'as_array', 'flat'}))


def _negstep_slice(st, info):
    """A slice with a negative step whose explicit stop lies at or before the first entry after normalisation, or
    whose start is omitted while the stop is given: SliceIndexer.shaped_instance() re-uses slice.indices() output
    (-1 = 'before the first entry') as a slice, or does not normalise at all."""
    for x, n in _axis_terms(st)[1]:
        if x['k'] != 'slice' or x['s'] == NONE or x['s'] >= 0 or x['b'] == NONE:
            continue
        if x['a'] == NONE and x['b'] >= 0:
            return True
        i = slice(None if x['a'] == NONE else x['a'], x['b'], x['s']).indices(n)
        if i[0] == -1 or i[1] == -1:
            return True
    return False


def _ellipsis_2d_single_axis(st, info):
    """(2-D index array, ...) or (..., 2-D index array) into a source with one (flattened) axis: EllipsisIndexer
    unwraps the one-element tuple, the bare 2-D array is then read as a tuple of its rows."""
    shape, terms, width = _axis_terms(st)
    return width is not None and len(shape) == 1 and len(terms) == 1 and terms[0][0]['k'] == 'arr2'


def _zero_width_ellipsis(st, info):
    """An ellipsis that stands for no axis, written between two integer / array indices: NumPy still counts it as
    a separator (broadcast dimensions go in front), OpenMDAO drops it."""
    t = st['idx']
    if t['k'] != 'tuple':
        return False
    shape, terms, width = _axis_terms(st)
    if width != 0:
        return False
    ks = [x['k'] for x in t['t']]
    e = ks.index('ell')
    adv = ('int', 'arr', 'arr2')
    return any(k in adv for k in ks[:e]) and any(k in adv for k in ks[e + 1:])


def pred_nontuple_nd(s, info):
    st = _stages(s)
    if not st:
        return False
    if s.get('c') == 'chain':
        return any(_nontuple_nd(x, {}) for x in st)
    return _nontuple_nd(st[0], dict(info, _first=st[0]))


PREDICATES = {'C05-nontuple-index-nd-source-flat-positions': pred_nontuple_nd,
              'C05-negative-step-slice-normalisation': _any_stage(_negstep_slice),
              'C05-ellipsis-2d-array-single-axis': _any_stage(_ellipsis_2d_single_axis),
              'C05-zero-width-ellipsis-between-index-arrays': _any_stage(_zero_width_ellipsis)}


# ------------------------------------------------------------------------------------------------------------
ALL_CLASSES = ('single', 'mixed', 'chain', 'a2s', 'ext')


def _cfg(quick, extfile, classes=ALL_CLASSES):
    return '''CONSTANTS
  MaxExt = %d
  SingleSel = %d
  MixLvl2 = 2
  MixLvl3 = 1
  MixMinExt3 = %d
  EllZero = %s
  ExtFile = "%s"
  Classes = {%s}
INIT Init
NEXT Next
%s
INVARIANT Export
''' % (3 if quick else 4, 1 if quick else 2, 2 if quick else 1, 'FALSE' if quick else 'TRUE', extfile,
       ', '.join('"%s"' % c for c in classes), '\n'.join('INVARIANT ' + x for x in LAWS))


def _unwrap(e):
    """A supplied (ext) scenario comes back wrapped as {c: ext, id, e: scenario}."""
    s = e['s']
    if s['c'] == 'ext':
        return {'s': dict(s['e'], ext_id=s['id']), 'v': e['v']}
    return e


def _supplied(s):
    """The scenario as it is written to the ext file (without bookkeeping keys)."""
    return {k: v for k, v in s.items() if k not in ('ext_id',)}


def _replay(ctx):
    """Re-run one stored scenario: the spec's expectation is recomputed by TLC, then the implementation is observed."""
    with open(ctx.replay) as f:
        rec = json.load(f)
    s = _supplied(rec['scenario'])
    if s['c'] in ('single', 'mixed'):
        s['c'] = 'idx'
    extfile = os.path.join(ctx.work, 'c05_replay.ndjson')
    with open(extfile, 'w') as f:
        f.write(json.dumps(s) + '\n')
    cfg = ctx.write_cfg('NdIndexMC_replay.cfg', _cfg(True, extfile, classes=('ext',)))
    r = ctx.tlc_check('mech/NdIndexMC', cfg, workers=1, timeout=600, heap='2g', coverage=False)
    scens = [_unwrap(e) for e in r.exports('EXP')]
    if len(scens) != 1 or _supplied(scens[0]['s']) != s:
        raise MachineryError('replay: TLC did not evaluate the stored scenario')
    ctx.coverage_actions['Choose'] = 1
    from ..util import quiet
    quiet()
    res = new_res()
    run_one(scens[0], res)
    if res['mach']:
        raise MachineryError(res['mach'][0])
    for x in res['viol']:
        ctx.violation(rec['scenario'], x['expected'], x['observed'],
                      'methods %s differ from the spec' % ', '.join(x['methods']),
                      info={'methods': x['methods'], 'observed': x['observed']})
    ctx.impl = res['compared']
    ctx.evaluations = res['evals']
    ctx.rule = 'replay of one stored scenario (expectation recomputed by TLC)'
    ctx.sample({'replayed': ctx.replay, 'spec': scens[0]['v'], 'violations': len(res['viol'])})


def run(ctx):
    ctx.register_predicates(PREDICATES)
    if getattr(ctx, 'replay', None):
        return _replay(ctx)
    quick = ctx.tier == 'quick'
    rnd = random.Random(ctx.seed * 7919 + 5)
    ext = rand_scenarios(rnd, 600 if quick else 12000, 150 if quick else 400)
    extfile = os.path.join(ctx.work, 'c05_ext.ndjson')
    with open(extfile, 'w') as f:
        for x in ext:
            f.write(json.dumps(x) + '\n')
    cfg = ctx.write_cfg('NdIndexMC.cfg', _cfg(quick, extfile))
    # -coverage slows this pure enumeration down several times; the vacuity guard is the export itself: every exported
    # scenario is one Choose step, and every class must be present
    r = ctx.tlc_check('mech/NdIndexMC', cfg, workers=TLC_WORKERS, timeout=3000, heap='12g', coverage=False)
    scens = r.exports('EXP')
    ctx.coverage_actions['Choose'] = len(scens)
    ctx.require_actions(['Choose'])
    missing = set(ALL_CLASSES) - {e['s']['c'] for e in scens}
    if missing:
        raise MachineryError('vacuous: no scenario of class %s' % sorted(missing))
    if len(scens) != r.distinct - _n_init(r):
        raise MachineryError('exported %d scenarios, TLC reports %d distinct states' % (len(scens), r.distinct))
    scens = [_unwrap(e) for e in scens]
    back = {e['s']['ext_id']: e['s'] for e in scens if 'ext_id' in e['s']}
    if len(back) != len(ext):
        raise MachineryError('TLC evaluated %d of the %d supplied scenarios' % (len(back), len(ext)))
    for i, src in enumerate(ext):           # the supplied scenario must come back unchanged
        if _supplied(back[i + 1]) != src:
            raise MachineryError('supplied scenario %d changed on its way through TLC' % (i + 1))
    rnd.shuffle(scens)
    results = pmap(_worker, split(scens, NPROC * 8), nproc=NPROC)
    tot = new_res()
    for res in results:
        for k, val in res.items():
            if isinstance(val, list):
                tot[k].extend(val)
            elif isinstance(val, dict):
                for kk, vv in val.items():
                    tot[k][kk] += vv
            else:
                tot[k] += val
    if tot['mach']:
        raise MachineryError('oracle self-check failed (%d): %s' % (len(tot['mach']), ' | '.join(tot['mach'][:3])))
    if tot['selfchecked'] != len(scens):
        raise MachineryError('self-checked %d of %d scenarios' % (tot['selfchecked'], len(scens)))
    if tot['compared'] < len(scens) // 3:
        raise MachineryError('only %d of %d scenarios were compared with the implementation' %
                             (tot['compared'], len(scens)))
    tot['viol'].sort(key=lambda x: json.dumps(x['scenario'], sort_keys=True))
    classes = collections.Counter()
    for x in tot['viol']:
        s = x['scenario']
        classes['%s|%s|%s|rank%d|%s' % (s['c'], s.get('idx', {}).get('k', '-'), 'flat' if s.get('flat') else 'nd',
                                        len(s.get('shape', [])), ','.join(x['methods']))] += 1
        ctx.violation(s, x['expected'], x['observed'],
                      'methods %s differ from the spec (index %s, source shape %s, flat_src=%s)' % (
                          ', '.join(x['methods']), show(s['idx']) if 'idx' in s else s.get('arr'),
                          s.get('shape'), s.get('flat')),
                      snippet='replay with: ./check C05 --replay <this file>',
                      info={'methods': x['methods'], 'observed': x['observed']})
    for k in tot['nontrivial']:
        ctx.note_nontrivial(k)
    for smp in tot['samples'][:2]:
        ctx.sample(smp)
    a2 = [e for e in scens if e['s']['c'] == 'a2s' and e['v']['a2s']['k'] == 'slice' and len(e['s']['arr']) == 3]
    if a2:
        ctx.sample({'array2slice_of': a2[0]['s']['arr'], 'spec_slice': a2[0]['v']['a2s']})
    ctx.impl = tot['compared']
    ctx.evaluations = tot['evals']
    ctx.exhaustive = True
    ctx.extra = {'scenarios_by_class': dict(tot['by_class']),
                 'oracle_selfchecked_against_numpy': tot['selfchecked'],
                 'numpy_valid_rejected_by_openmdao': tot['valid_rejected'],
                 'bare_2d_array_not_compared': tot['bare_2d_not_compared'],
                 'openmdao_rejections_by_message': dict(tot['rejected']),
                 'numpy_invalid': {'rejected_by_openmdao': tot['numpy_invalid_rejected'],
                                   'accepted_by_openmdao_not_compared': tot['numpy_invalid_accepted']},
                 'array2slice': {'returned_slice': tot['a2s_slice'], 'returned_none': tot['a2s_none'],
                                 'none_although_a_slice_exists': tot['a2s_missed']},
                 'violation_classes': dict(classes)}
    me = 3 if quick else 4
    ctx.rule = ('every index specification of NdIndexMC.tla: one term of the full grammar (ints -n-1..n, slices with '
                'start/stop in {None} u -n-1..n+1 and step in {None,1,-1,2,-2}, all 1-D arrays of length <=3 over '
                '-n..n-1, 2-D arrays, out-of-range arrays) bare or in a tuple on every axis of rank-1 shapes and of '
                'selected rank-2/3 shapes (extents <= %d), flat and non-flat; tuples of representative terms on all '
                'rank-2/3 shapes with extents <= %d (quick: three-term tuples where all extents >= 2) with shorter tuples and '
                'an ellipsis at every position; two-stage '
                'chains; all integer arrays of length <=4 over -2..6 for array2slice; %d seeded random larger '
                'scenarios (rank <= 4) evaluated by TLC from a file.  Each is first compared with NumPy (oracle '
                'self-check) and then executed on openmdao.utils.indexer along 3 construction paths x ndarray/list/'
                'om.slicer spellings x 6 methods; non-trivial = distinct scenarios accepted by OpenMDAO whose '
                'selection is not the identity' % (me, me, len(ext)))
    ctx.assumptions = ['index arrays have an integer dtype; boolean masks, np.newaxis and nested tuples are not index '
                       'forms OpenMDAO documents and are out of scope',
                       'specifications rejected by OpenMDAO at construction / set_src_shape (stricter than NumPy: '
                       'slices leaving the source, multi-dimensional tuples into a flat source, empty list spelling) '
                       'are counted, not compared; specifications NumPy rejects are counted, not compared',
                       'as_array() and flat() are compared as indices into the flat source (they may legitimately '
                       'hold negative entries or be a slice); shaped_array() is compared exactly',
                       'a NON-tuple 2-D index array is read by OpenMDAO (deprecated spelling, announced by a warning) as a '
                       'tuple of its rows, which is not what NumPy does with the same object; those scenarios are '
                       'enumerated and self-checked against NumPy but not compared with the implementation (2-D index '
                       'arrays inside tuples are compared)',
                       'OpenMDAO checks a non-tuple index array / slice into a non-flat multi-dimensional source against '
                       'the total size instead of the extent of the first axis; what it accepts beyond NumPy is not '
                       'compared',
                       'distributed sources (dist_shape) are not covered']


def _n_init(r):
    m = __import__('re').search(r'Finished computing initial states: (\d+) distinct state', r.out)
    return int(m.group(1)) if m else 0
