"""C14 - ExecComp evaluates its expressions and their exact partials.

Spec: spec/mech/Expr.tla.  TLC grows expression trees node by node over ExecComp's function table (exhaustively: every
tree with at most MaxOps operator nodes; -simulate: random deeper trees), checks the laws of the symbolic derivative D
(well-formedness, Vars, zero, linearity, product/quotient/chain instances, and on the algebraic fragment exact agreement
with forward-mode dual numbers over the rationals) and exports every tree with its derivative trees D(e, x) and the domain
side-conditions Dom.  This driver renders each tree as an ExecComp expression string, chooses seeded evaluation points
that satisfy Dom with a margin, builds a real ExecComp for a selection of shapes x has_diag_partials x do_coloring x
shape_by_conn, and compares outputs, total derivatives, component sub-Jacobians and declared sparsity with the spec's
trees evaluated by NumPy (NumPy's primitives are the trusted base; the tree and the differentiation rules are the
spec's).  The tree helpers (render / evaluate / choose points) are shared with C34."""
import json
import os
import random

from ..tlc import MachineryError
from ..util import pmap, split, quiet

UN_ALL = ['sin', 'cos', 'tan', 'exp', 'expm1', 'log', 'log10', 'log1p', 'tanh', 'sinh', 'cosh', 'arctan', 'arcsin',
          'arccos', 'arcsinh', 'arccosh', 'abs', 'sqrt']
UN_QUICK = ['sin', 'cos', 'tan', 'exp', 'log', 'log10', 'log1p', 'tanh', 'sinh', 'cosh', 'arctan', 'arcsin', 'arcsinh',
            'abs', 'sqrt']
BIN_ALL = ['add', 'sub', 'mul', 'div', 'arctan2', 'maximum', 'minimum']
BIN_SYM = {'add': '+', 'sub': '-', 'mul': '*', 'div': '/'}
ALIAS = {'arctan': 'atan', 'arcsin': 'asin', 'arccos': 'acos', 'arcsinh': 'asinh', 'arccosh': 'acosh',
         'maximum': 'fmax', 'minimum': 'fmin'}
MAGMAX = 1.0e3          # evaluation points keep every intermediate value (of e, of each D(e,x)) below this
RTOL = 1.0e-9
MARGIN = 0.05


# ---------------------------------------------------------------------------------------------------------------------
# trees (JSON form of Expr.tla nodes: {'t','f','k','c'})
# ---------------------------------------------------------------------------------------------------------------------
def tree_vars(t):
    if t['t'] == 'var':
        return {t['f']}
    s = set()
    for c in t['c']:
        s |= tree_vars(c)
    return s


def tree_funcs(t):
    s = set()
    if t['t'] in ('un', 'bin'):
        s.add(t['f'])
    elif t['t'] in ('pow', 'neg'):
        s.add(t['t'])
    for c in t['c']:
        s |= tree_funcs(c)
    return s


def tree_size(t):
    return 1 + sum(tree_size(c) for c in t['c'])


def render(t, style='plain', prefix=''):
    """Expression text.  style 'plain' | 'alias' (ExecComp aliases atan/asin/fmax/power...) | 'np' (np.-prefixed
    function calls, for generated Python functions; prefix = 'np.' or 'jnp.')."""
    k = t['t']
    if k == 'var':
        return t['f']
    if k == 'const':
        v = '%d.0' % t['k']
        return v if t['k'] >= 0 else '(%s)' % v
    c = [render(x, style, prefix) for x in t['c']]
    if k == 'neg':
        return '(-%s)' % c[0]
    if k == 'pow':
        n = t['k']
        if style == 'alias':
            return 'power(%s, %d)' % (c[0], n)
        return '(%s ** %s)' % (c[0], ('%d' % n) if n >= 0 else '(%d)' % n)
    if k == 'un':
        f = t['f']
        if style == 'np':
            return '%s%s(%s)' % (prefix, f, c[0])
        if f == 'sqrt':              # not in ExecComp's table
            return '(%s ** 0.5)' % c[0]
        if style == 'alias':
            f = ALIAS.get(f, f)
        return '%s(%s)' % (f, c[0])
    if k == 'bin':
        f = t['f']
        if f in BIN_SYM:
            return '(%s %s %s)' % (c[0], BIN_SYM[f], c[1])
        if style == 'np':
            return '%s%s(%s, %s)' % (prefix, f, c[0], c[1])
        if style == 'alias':
            f = ALIAS.get(f, f)
        return '%s(%s, %s)' % (f, c[0], c[1])
    raise MachineryError('unknown node %r' % (t,))


def _np_table():
    import numpy as np
    un = {f: getattr(np, f) for f in UN_ALL}
    bn = {'add': np.add, 'sub': np.subtract, 'mul': np.multiply, 'div': np.divide, 'arctan2': np.arctan2,
          'maximum': np.maximum, 'minimum': np.minimum}
    return un, bn


_TAB = None


def ev(t, env):
    """(value, magnitude) of the tree with NumPy; magnitude = elementwise max |.| over all intermediate values."""
    import numpy as np
    global _TAB
    if _TAB is None:
        _TAB = _np_table()
    un, bn = _TAB
    k = t['t']
    if k == 'var':
        v = env[t['f']]
        return v, np.abs(v)
    if k == 'const':
        v = float(t['k'])
        return v, abs(v)
    if k == 'bin':
        a, ma = ev(t['c'][0], env)
        b, mb = ev(t['c'][1], env)
        v = bn[t['f']](a, b)
        return v, np.maximum(np.maximum(ma, mb), np.abs(v))
    a, ma = ev(t['c'][0], env)
    if k == 'neg':
        v = -a
    elif k == 'pow':
        v = np.power(a, float(t['k'])) if t['k'] < 0 else np.power(a, t['k'])
    elif k == 'un':
        v = un[t['f']](a)
    else:
        raise MachineryError('unknown node %r' % (t,))
    return v, np.maximum(ma, np.abs(v))


def feasible(rec, env):
    """boolean array: the point satisfies every domain constraint with a margin and e and all D(e,x) are finite and
    moderate there"""
    import numpy as np
    ok = True
    mag = 0.0
    with np.errstate(all='ignore'):
        for cn in rec['dom']:
            v, m = ev(cn['e'], env)
            kind = cn['k']
            if kind == 'pos':
                c = v > MARGIN
            elif kind == 'nz':
                c = np.abs(v) > MARGIN
            elif kind == 'lt1':
                c = np.abs(v) < 1.0 - MARGIN
            elif kind == 'gt1':
                c = v > 1.0 + MARGIN
            else:
                raise MachineryError('unknown constraint kind %r' % kind)
            ok = ok & c & np.isfinite(v)
        for t in [rec['e']] + [rec['d'][x] for x in sorted(rec['vars'])]:
            v, m = ev(t, env)
            ok = ok & np.isfinite(v) & np.isfinite(m)
            mag = np.maximum(mag, np.where(np.isfinite(m), m, np.inf))
        ok = ok & (mag < MAGMAX)
    return ok


def _draw(rs, n):
    """n values from a mixture of ranges (so that positive-only / |.|<1 / >1 domains are all hit)"""
    import numpy as np
    which = rs.randint(0, 5, size=n)
    lo = np.array([-2.2, 0.1, 1.1, -0.9, 0.2])[which]
    hi = np.array([2.2, 0.9, 2.5, -0.1, 2.2])[which]
    return np.round(lo + (hi - lo) * rs.random_sample(n), 3)


def on_arctan2_cut(node, env):
    """True when some arctan2(a, b) node of the tree is evaluated on its branch cut (a == 0, b < 0) at the point: the
    result there depends on the sign of a floating-point zero, which is not part of the specification"""
    import numpy as np
    for c in node.get('c', []):
        if on_arctan2_cut(c, env):
            return True
    if node.get('t') == 'bin' and node.get('f') == 'arctan2':
        with np.errstate(all='ignore'):
            a, _ = ev(node['c'][0], env)
            b, _ = ev(node['c'][1], env)
        a, b = np.broadcast_arrays(np.asarray(a, dtype=float), np.asarray(b, dtype=float))
        return bool(np.any((np.abs(a) <= 1e-12) & (b < 0)))
    return False


def choose_point(rec, shapes, rs):
    """{var: ndarray of its shape} satisfying the constraints elementwise (scalars are shared by all elements), or None"""
    import numpy as np
    names = sorted(rec['vars'])
    arr = [v for v in names if len(shapes[v]) > 0 and int(np.prod(shapes[v])) > 1]
    shared = [v for v in names if v not in arr]
    n = int(np.prod(shapes[arr[0]])) if arr else 1
    for _ in range(30):
        if arr:
            env = {v: float(_draw(rs, 1)[0]) for v in shared}
            cand = 400
            for v in arr:
                env[v] = _draw(rs, cand)
        else:
            cand = 400
            env = {v: _draw(rs, cand) for v in shared}
        ok = np.broadcast_to(feasible(rec, env), (cand,))
        idx = np.nonzero(ok)[0]
        if len(idx) >= n:
            idx = idx[:n]
            pt = {}
            for v in names:
                if v in arr:
                    pt[v] = env[v][idx].reshape(shapes[v])
                elif arr:
                    pt[v] = np.full(shapes[v], env[v])
                else:
                    pt[v] = np.full(shapes[v], env[v][idx[0]])
            return pt
    return None


def expected(rec, pt, yshape):
    """spec values at the point: y, {x: dense d y / d x}, tolerance scale"""
    import numpy as np
    env = {v: (a.reshape(()) if a.size == 1 else a) for v, a in pt.items()}
    env = {v: (float(a) if a.ndim == 0 else a) for v, a in env.items()}
    with np.errstate(all='ignore'):
        y, mag = ev(rec['e'], env)
        ny = int(np.prod(yshape)) if len(yshape) else 1
        y = np.broadcast_to(np.asarray(y, dtype=float), yshape if len(yshape) else ()).reshape(ny)
        mags = [np.max(mag)]
        J = {}
        for x in sorted(rec['vars']):
            d, m = ev(rec['d'][x], env)
            mags.append(np.max(m))
            d = np.broadcast_to(np.asarray(d, dtype=float), yshape if len(yshape) else ()).reshape(ny)
            nx = pt[x].size
            if nx == ny and ny > 1:
                J[x] = np.diag(d)
            elif nx == 1:
                J[x] = d.reshape(ny, 1)
            else:
                raise MachineryError('shape combination not elementwise: %r' % ((pt[x].shape, yshape),))
    return y, J, float(max(1.0, max(mags)))


# ---------------------------------------------------------------------------------------------------------------------
# configurations
# ---------------------------------------------------------------------------------------------------------------------
SHAPES = {'s': (1,), 's0': (), 'v': (3,), 'm': (2, 2)}


def configs_for(nvars):
    """every legal configuration: shapes per variable x declaration style x has_diag_partials x do_coloring x
    shape_by_conn x rendering style"""
    out = []
    if nvars == 1:
        shp = [('s',), ('s0',), ('v',), ('m',)]
    else:
        shp = [('s', 's'), ('s0', 's0'), ('v', 'v'), ('m', 'm'), ('v', 's'), ('s', 'v'), ('m', 's'), ('s', 'm'),
               ('v', 's0'), ('s0', 'm')]
    for sh in shp:
        arrays = [s for s in sh if s in ('v', 'm')]
        for sbc in ('none', 'var', 'comp'):
            if sbc != 'none' and 's0' in sh:
                continue
            decls = ['val', 'shape'] if sbc == 'none' else ['conn']
            if sbc == 'none' and arrays and len(set(sh)) == 1:
                decls.append('compshape')
            if 's0' in sh:
                decls = ['shape']
            for decl in decls:
                for hd in (False, True):
                    cols = (True, False) if (arrays and not hd) else (True,)
                    for col in cols:
                        for style in ('plain', 'alias'):
                            out.append({'shapes': list(sh), 'decl': decl, 'hd': hd, 'col': col, 'sbc': sbc,
                                        'style': style})
    return out


def yshape_of(cfg):
    arrays = [s for s in cfg['shapes'] if s in ('v', 'm')]
    if arrays:
        return SHAPES[arrays[0]]
    return () if all(s == 's0' for s in cfg['shapes']) else (1,)


def build(rec, cfg, pt):
    """the real Problem for one scenario; returns (problem, component, {var: name to set/differentiate})"""
    import numpy as np
    import openmdao.api as om
    names = sorted(rec['vars'])
    shapes = {v: SHAPES[s] for v, s in zip(names, cfg['shapes'])}
    ysh = yshape_of(cfg)
    expr = 'y = ' + render(rec['e'], cfg['style'])
    opts = {'has_diag_partials': cfg['hd']}
    if not cfg['col']:
        opts['do_coloring'] = False
    p = om.Problem()
    kw = {}
    if cfg['sbc'] == 'none':
        if cfg['decl'] == 'compshape':
            opts['shape'] = ysh
        else:
            for v in names + ['y']:
                sh = ysh if v == 'y' else shapes[v]
                if cfg['decl'] == 'val':
                    if sh != (1,):
                        kw[v] = np.ones(sh)
                else:
                    kw[v] = {'shape': sh}
        c = p.model.add_subsystem('c', om.ExecComp(expr, **opts, **kw))
        wrt = {v: 'c.' + v for v in names}
    else:
        ivc = p.model.add_subsystem('ivc', om.IndepVarComp())
        for v in names:
            ivc.add_output(v, val=np.array(pt[v], dtype=float))
        if cfg['sbc'] == 'var':
            src = [v for v in names if len(shapes[v]) and int(np.prod(shapes[v])) > 1] or names
            for v in names:
                kw[v] = {'shape_by_conn': True}
            kw['y'] = {'copy_shape': src[0]}
            c = p.model.add_subsystem('c', om.ExecComp(expr, **opts, **kw))
        else:
            opts['shape_by_conn'] = True
            c = p.model.add_subsystem('c', om.ExecComp(expr, **opts))
            p.model.add_subsystem('sink', om.ExecComp('s = 2.0*yy', yy=np.ones(ysh), s=np.ones(ysh)))
            p.model.connect('c.y', 'sink.yy')
        for v in names:
            p.model.connect('ivc.' + v, 'c.' + v)
        wrt = {v: 'ivc.' + v for v in names}
    p.setup()
    p.final_setup()
    return p, c, wrt


def observe(p, c, wrt, pt):
    import numpy as np
    for v, a in pt.items():
        p.set_val(wrt[v], a)
    p.run_model()
    names = sorted(pt)
    y = np.array(p.get_val('c.y'), dtype=float)
    tot = p.compute_totals(of=['c.y'], wrt=[wrt[v] for v in names])
    o = {'y': y.ravel(), 'yshape': y.shape, 'tot': {v: np.array(tot['c.y', wrt[v]], dtype=float) for v in names},
         'sub': {}, 'meta': {}, 'colors': None}
    sj = c._get_jacobian()._get_subjacs()
    for v in names:
        key = ('c.y', 'c.' + v)
        if key in sj:
            o['sub'][v] = np.array(sj[key].todense(), dtype=float)
        m = c._subjacs_info.get(key)
        if m is not None:
            o['meta'][v] = {'diagonal': bool(m.get('diagonal')), 'rows': None if m.get('rows') is None else
                            [int(r) for r in m['rows']], 'cols': None if m.get('cols') is None else
                            [int(r) for r in m['cols']], 'sparsity': None if m.get('sparsity') is None else
                            [[int(r) for r in m['sparsity'][0]], [int(r) for r in m['sparsity'][1]]],
                            'cls': type(sj[key]).__name__ if key in sj else None}
    col = c._coloring_info.coloring
    if col is not None:
        o['colors'] = int(col.total_solves())
    return o


def compare(rec, cfg, pts):
    """run one scenario; returns list of failures [(clause, expected, observed, point index)]"""
    import numpy as np
    fails = []
    names = sorted(rec['vars'])
    ysh = yshape_of(cfg)
    try:
        p, c, wrt = build(rec, cfg, pts[0])
    except Exception as e:
        return [('setup of a legal configuration raised %s' % type(e).__name__, 'setup succeeds', str(e)[:300], 0)], {}
    info = {}
    spars0 = {}
    for ip, pt in enumerate(pts):
        ey, eJ, mag = expected(rec, pt, ysh)
        tol = RTOL * mag
        try:
            o = observe(p, c, wrt, pt)
        except Exception as e:
            fails.append(('run_model/compute_totals raised %s' % type(e).__name__, 'evaluation succeeds', str(e)[:300], ip))
            break
        if ip == 0:
            info = {'colors': o['colors'], 'cls': {v: o['meta'].get(v, {}).get('cls') for v in names}}
            spars0 = {v: o['meta'].get(v, {}).get('sparsity') for v in names}
        elif o['colors'] is not None:
            # the coloring keeps the sparsity sampled at the first point: is an entry that was zero there nonzero here?
            for v in names:
                if spars0.get(v) is not None:
                    nzr, nzc = np.nonzero(np.abs(eJ[v]) > tol)
                    if not set(zip(nzr.tolist(), nzc.tolist())) <= set(zip(spars0[v][0], spars0[v][1])):
                        info['stale'] = ip
        if tuple(o['yshape']) != tuple(ysh):
            fails.append(('output shape', list(ysh), list(o['yshape']), ip))
            break
        if not np.all(np.abs(o['y'] - ey) <= tol):
            fails.append(('output y differs from the tree evaluated with NumPy', ey, o['y'], ip))
        for v in names:
            E = eJ[v]
            T = o['tot'][v]
            if T.shape != E.shape or not np.all(np.abs(T - E) <= tol):
                fails.append(('total derivative dy/d%s differs from the spec derivative tree' % v, E, T, ip))
            S = o['sub'].get(v)
            if S is None:
                if np.any(np.abs(E) > tol):
                    fails.append(('sub-Jacobian (y,%s) is not declared but the derivative is nonzero' % v, E, None, ip))
                continue
            if S.shape != E.shape or not np.all(np.abs(S - E) <= tol):
                fails.append(('component sub-Jacobian (y,%s) differs from the spec derivative tree' % v, E, S, ip))
            m = o['meta'].get(v) or {}
            nx, ny = pts[0][v].size, E.shape[0]
            if cfg['hd'] and nx > 1 and ny > 1 and not m.get('diagonal'):
                fails.append(('has_diag_partials: (y,%s) is not declared diagonal' % v, 'diagonal', m, ip))
            # declared structure must cover every nonzero of the exact derivative
            nzr, nzc = np.nonzero(np.abs(E) > tol)
            if m.get('diagonal'):
                if np.any(nzr != nzc):
                    fails.append(('(y,%s) declared diagonal but the exact derivative has off-diagonal entries' % v,
                                  E, m, ip))
            elif m.get('rows') is not None:
                decl = set(zip(m['rows'], m['cols']))
                if not set(zip(nzr.tolist(), nzc.tolist())) <= decl:
                    fails.append(('declared rows/cols of (y,%s) miss a nonzero of the exact derivative' % v, E, m, ip))
            if ip == 0 and m.get('sparsity') is not None and not m.get('diagonal'):
                decl = set(zip(m['sparsity'][0], m['sparsity'][1]))
                if not set(zip(nzr.tolist(), nzc.tolist())) <= decl:
                    fails.append(('computed sparsity of (y,%s) misses a nonzero of the exact derivative' % v, E, m, ip))
    return fails, info


def snippet(rec, cfg, pts):
    names = sorted(rec['vars'])
    lines = ['import numpy as np, openmdao.api as om',
             '# %s ; cfg %s' % ('y = ' + render(rec['e'], cfg['style']), json.dumps(cfg)),
             'from vf.drivers import c14   # PYTHONPATH=/verif/harness',
             'rec = %s' % json.dumps({k: rec[k] for k in ('e', 'd', 'dom', 'vars')}),
             'cfg = %s' % json.dumps(cfg),
             'pts = [%s]' % ', '.join('{%s}' % ', '.join('%r: np.array(%r)' % (v, pt[v].tolist()) for v in names)
                                      for pt in pts),
             'print(c14.compare(rec, cfg, pts))']
    return '\n'.join(lines)


# ---------------------------------------------------------------------------------------------------------------------
# workers
# ---------------------------------------------------------------------------------------------------------------------
_RECS = []


def _worker(jobs):
    import numpy as np
    quiet()
    out = []
    for (i, cfg, seed) in jobs:
        rec = _RECS[i]
        rs = np.random.RandomState(seed)
        names = sorted(rec['vars'])
        shapes = {v: SHAPES[s] for v, s in zip(names, cfg['shapes'])}
        pts = []
        for _ in range(cfg.get('npts', 2)):
            pt = choose_point(rec, shapes, rs)
            if pt is None:
                break
            pts.append(pt)
        if not pts:
            out.append({'i': i, 'cfg': cfg, 'skip': 'no point satisfies the domain constraints'})
            continue
        envs = [{v: (a.reshape(()) if a.size == 1 else a) for v, a in pt.items()} for pt in pts]
        if any(on_arctan2_cut(rec['e'], {v: (float(a) if a.ndim == 0 else a) for v, a in e_.items()}) for e_ in envs):
            out.append({'i': i, 'cfg': cfg, 'skip': 'a point on the branch cut of arctan2'})
            continue
        if cfg.get('col') and len(pts) >= 2 and seed % 2 == 0:
            # the sparsity of the automatic coloring is sampled at the first linearization: let one variable be exactly 0
            # there (where the domain allows it), so that partials proportional to it vanish at that point only
            arrs = [v for v in names if pts[0][v].size > 1]
            for v in sorted(names, key=lambda u: (u not in arrs, u))[:2]:
                p0 = {u: a.copy() for u, a in pts[0].items()}
                p0[v] = np.zeros_like(p0[v])
                env = {u: (p0[u].ravel() if u in arrs else float(p0[u].ravel()[0])) for u in names}
                try:
                    ok = bool(np.all(feasible(rec, env))) and not on_arctan2_cut(
                        rec['e'], {u: (float(a.ravel()[0]) if a.size == 1 else a) for u, a in p0.items()})
                    if ok:
                        # not on a branch cut: the spec's value and derivatives do not depend on the sign of the zero
                        m0 = {u: a.copy() for u, a in p0.items()}
                        m0[v] = -m0[v]
                        with np.errstate(all='ignore'):
                            ya, _ = ev(rec['e'], {u: a for u, a in p0.items()})
                            yb, _ = ev(rec['e'], {u: a for u, a in m0.items()})
                            ok = bool(np.array_equal(np.asarray(ya, dtype=float), np.asarray(yb, dtype=float)))
                            for x in sorted(rec['vars']):
                                da, _ = ev(rec['d'][x], {u: a for u, a in p0.items()})
                                db, _ = ev(rec['d'][x], {u: a for u, a in m0.items()})
                                ok = ok and bool(np.array_equal(np.asarray(da, dtype=float), np.asarray(db, dtype=float)))
                except Exception:
                    ok = False
                if ok:
                    pts[0] = p0
                    break
        fails, info = compare(rec, cfg, pts)
        out.append({'i': i, 'cfg': cfg, 'pts': [{v: a.tolist() for v, a in pt.items()} for pt in pts],
                    'fails': [(f[0], _l(f[1]), _l(f[2]), f[3]) for f in fails[:4]], 'info': info})
    return out


def _l(x):
    import numpy as np
    return x.tolist() if isinstance(x, np.ndarray) else x


# ---------------------------------------------------------------------------------------------------------------------
# TLC
# ---------------------------------------------------------------------------------------------------------------------
LAWS = ['TypeOK', 'WellFormed', 'VarsLaw', 'ZeroLaw', 'LinearLaw', 'ProductLaw', 'ChainLaw', 'DualLaw']


def tla_set(xs):
    return '{' + ', '.join('"%s"' % x if isinstance(x, str) else str(x) for x in xs) + '}'


def write_cfg(ctx, name, un, bins, depth, ops, consts=(2,), pows='PowExpsStd', laws=True):
    txt = ['CONSTANTS', '  VarNames = {"x0", "x1"}', '  ConstVals = %s' % tla_set(consts), '  UnFns = %s' % tla_set(un),
           '  BinOps = %s' % tla_set(bins), '  PowExps <- %s' % pows, '  MaxDepth = %d' % depth, '  MaxOps = %d' % ops,
           'INIT Init', 'NEXT Next']
    if laws:
        txt += ['INVARIANT %s' % l for l in LAWS]
    txt.append('INVARIANT Export')
    return ctx.write_cfg(name, '\n'.join(txt) + '\n')


def enumerate_trees(ctx, un, bins, depth, ops, workers=None):
    cfg = write_cfg(ctx, 'Expr.cfg', un, bins, depth, ops)
    kw = {'timeout': 3000, 'heap': '8g', 'coverage': False}
    if workers:
        kw['workers'] = workers
    r = ctx.tlc_check('mech/Expr', cfg, **kw)
    recs = r.exports('EXP')
    if not recs:
        raise MachineryError('no trees exported:\n' + r.tail())
    return r, recs


def simulate_trees(ctx, un, bins, depth, ops, num, seed, timeout, workers=4):
    cfg = write_cfg(ctx, 'ExprSim.cfg', un, bins, depth, ops, pows='PowExpsWide')
    # -simulate num= is per worker
    r = ctx.tlc_run('mech/Expr', cfg, simulate='num=%d' % max(1, num // workers), depth=4 * ops + 8, seed=seed,
                    workers=workers, timeout=timeout, heap='4g')
    if r.violated or r.assume_false or (r.error and 'Finished in' not in r.out):
        raise MachineryError('TLC simulation failed on Expr:\n' + r.tail(40))
    r.out = r.out[:r.out.rfind('\n') + 1]
    recs = r.exports('EXP')
    seen, uniq = set(), []
    for rec in recs:
        k = json.dumps(rec['e'], sort_keys=True)
        if k not in seen:
            seen.add(k)
            uniq.append(rec)
    if len(uniq) < min(20, num // 4):
        raise MachineryError('simulation produced only %d trees:\n%s' % (len(uniq), r.tail()))
    return r, uniq


def vacuity_guard(recs):
    """the implication-shaped laws of Expr.tla must have had true antecedents in this run"""
    n = {'algebraic (DualLaw)': 0, 'root add/sub/neg (LinearLaw)': 0, 'root mul/div (ProductLaw)': 0,
         'root un/pow (ChainLaw)': 0, 'variable absent (ZeroLaw)': 0, 'with domain constraints': 0}
    alg = {'add', 'sub', 'mul', 'div', 'maximum', 'minimum', 'abs', 'pow', 'neg'}
    for rec in recs:
        e = rec['e']
        if tree_funcs(e) <= alg and rec['depth'] <= 2:
            n['algebraic (DualLaw)'] += 1
        if (e['t'] == 'bin' and e['f'] in ('add', 'sub')) or e['t'] == 'neg':
            n['root add/sub/neg (LinearLaw)'] += 1
        if e['t'] == 'bin' and e['f'] in ('mul', 'div'):
            n['root mul/div (ProductLaw)'] += 1
        if e['t'] in ('un', 'pow'):
            n['root un/pow (ChainLaw)'] += 1
        if len(rec['vars']) < 2:
            n['variable absent (ZeroLaw)'] += 1
        if rec['dom']:
            n['with domain constraints'] += 1
    zero = [k for k, v in n.items() if v == 0]
    if zero:
        raise MachineryError('vacuous: no exported tree exercises %s' % zero)
    return n


def has_branch(rec):
    return bool(tree_funcs(rec['e']) & {'maximum', 'minimum'})


def pred_stale_sparsity(scn, info):
    """automatic coloring keeps the sparsity sampled at the first linearization point: an entry whose exact derivative was
    (numerically) zero there - inactive max/min branch, abs(x)+x for x<0, saturated tanh - is nonzero at a later point"""
    import numpy as np
    cfg = scn.get('cfg', {})
    if not (bool(cfg.get('col')) and not cfg.get('hd') and scn.get('point', 0) > 0
            and scn.get('stale_sparsity_at') == scn.get('point')
            and any(s in ('v', 'm') for s in cfg.get('shapes', []))):
        return False
    # The sparsity is sampled near the first point with exact zeros moved off zero (ExecComp._compute_coloring).  The known
    # class is the one where a derivative is still exactly 0.0 THERE (underflow, saturation, inactive branch); an entry
    # that vanishes only because an input is exactly 0 at the first point is not part of it.
    try:
        rec, pts = scn['rec'], scn['pts']
        p0 = {v: np.array(a, dtype=float) for v, a in pts[0].items()}
        if not any(np.any(a == 0.0) for a in p0.values()):
            return True
        moved = {v: np.where(a == 0.0, 1e-9, a) for v, a in p0.items()}
        later = {v: np.array(a, dtype=float) for v, a in pts[scn['point']].items()}
        with np.errstate(all='ignore'):
            for x in sorted(rec['vars']):
                d0, _ = ev(rec['d'][x], {v: (float(a) if a.ndim == 0 or a.size == 1 and False else a) for v, a in moved.items()})
                d1, _ = ev(rec['d'][x], {v: a for v, a in later.items()})
                d0, d1 = np.broadcast_arrays(np.asarray(d0, dtype=float), np.asarray(d1, dtype=float))
                # (zero, or of higher order in the moved entries: numerically negligible where the sparsity is sampled)
                if np.any((np.abs(d0) <= 1e-15) & (d1 != 0.0)):
                    return True
        return False
    except Exception:
        return False


def replay(ctx):
    import numpy as np
    with open(ctx.replay) as f:
        stored = json.load(f)
    sc = stored['scenario']
    # the stored trees are re-derived by TLC from the same bounds (the laws are re-checked) before they are trusted
    r, recs = enumerate_trees(ctx, UN_QUICK, BIN_ALL, 1, 1)
    rec = sc['rec']
    rec['vars'] = sorted(rec['vars'])
    pts = [{v: np.array(a, dtype=float) for v, a in pt.items()} for pt in sc['pts']]
    quiet()
    fails, info = compare(rec, sc['cfg'], pts)
    ctx.impl = ctx.evaluations = 1
    ctx.rule = 'replay of one stored scenario'
    ctx.sample({'replayed': ctx.replay, 'failures': [f[0] for f in fails]})
    for f in fails[:1]:
        ctx.violation(sc, _l(f[1]), _l(f[2]), f[0], snippet=snippet(rec, sc['cfg'], pts))


def run(ctx):
    global _RECS
    ctx.register_predicates({'C14-coloring-stale-sparsity': pred_stale_sparsity,
                             'C14-coloring-stale-sparsity-underflow': lambda scn, info: pred_stale_sparsity(scn, info) and not scn.get('branch')})
    if getattr(ctx, 'replay', None):
        return replay(ctx)
    quick = ctx.tier == 'quick'
    nproc = int(os.environ.get('VERIF_NPROC', '0') or 0) or min(16, os.cpu_count() or 1)
    tw = int(os.environ.get('VERIF_TLC_WORKERS', '0') or 0) or None
    # (1) exhaustive: every tree with at most 2 operator nodes (depth <= 2) over the alphabet
    r, recs = enumerate_trees(ctx, UN_QUICK if quick else UN_ALL, BIN_ALL, 2, 2, workers=tw)
    nexh = len(recs)
    # (2) random deeper trees
    if quick:
        rs_, sim = simulate_trees(ctx, UN_ALL, BIN_ALL, 3, 4, 700, ctx.seed + 1, timeout=60, workers=min(tw or 4, 4))
    else:
        rs_, sim = simulate_trees(ctx, UN_ALL, BIN_ALL, 4, 6, 12000, ctx.seed + 1, timeout=400, workers=tw or 8)
    sim = [x for x in sim if x['ops'] >= 3]           # the smaller ones are in the exhaustive set
    vacuity_guard(recs + sim)
    ctx.extra['trees_exhaustive'] = nexh
    ctx.extra['trees_simulated'] = len(sim)
    recs = recs + sim
    for rec in recs:
        rec['vars'] = sorted(rec['vars'])
    _RECS = recs
    rnd = random.Random(ctx.seed)
    allcfg = {1: configs_for(1), 2: configs_for(2)}
    per_tree = (3 if quick else 10)
    jobs = []
    for i, rec in enumerate(recs):
        L = allcfg[len(rec['vars'])]
        k = per_tree if i < nexh else 2 * per_tree
        for cfg in rnd.sample(L, min(k, len(L))):
            jobs.append((i, cfg, rnd.randrange(1 << 30)))
    rnd.shuffle(jobs)
    chunks = [c for c in split(jobs, nproc * 8) if c]
    res = [x for rs in pmap(_worker, chunks, nproc=nproc) for x in rs]
    nrun = nskip = npoints = 0
    classes = {}
    skipped_trees, run_trees = set(), set()
    covered = set()
    import numpy as np
    for o in res:
        rec = recs[o['i']]
        cfg = o['cfg']
        if 'skip' in o:
            nskip += 1
            skipped_trees.add(o['i'])
            continue
        nrun += 1
        run_trees.add(o['i'])
        npoints += len(o['pts'])
        arrays = any(s in ('v', 'm') for s in cfg['shapes'])
        covered.add((tuple(cfg['shapes']), cfg['decl'], cfg['hd'], cfg['col'], cfg['sbc']))
        if arrays or cfg['hd'] or cfg['sbc'] != 'none':
            ctx.note_nontrivial('%d/%s' % (o['i'], json.dumps(cfg, sort_keys=True)))
        for f in o['fails'][:1]:
            scn = {'expr': 'y = ' + render(rec['e'], cfg['style']), 'cfg': cfg, 'pts': o['pts'], 'point': f[3],
                   'branch': has_branch(rec), 'stale_sparsity_at': o['info'].get('stale'), 'rec': {k: rec[k] for k in ('e', 'd', 'dom', 'vars')}}
            pts = [{v: np.array(a, dtype=float) for v, a in pt.items()} for pt in o['pts']]
            cl = 'C14-coloring-stale-sparsity' if pred_stale_sparsity(scn, {}) else f[0]
            classes[cl] = classes.get(cl, 0) + 1
            ctx.violation(scn, f[1], f[2], f[0], snippet=snippet(rec, cfg, pts))
    if nrun == 0:
        raise MachineryError('no scenario was executed')
    ctx.impl = nrun
    ctx.evaluations = npoints
    ctx.exhaustive = False
    ctx.extra.update({'failure_classes': classes, 'scenarios_skipped_infeasible_domain': nskip,
                      'trees_without_any_feasible_point': len(skipped_trees - run_trees),
                      'trees_replayed': len(run_trees), 'option_combinations_covered': len(covered),
                      'option_combinations_legal': len({(tuple(c['shapes']), c['decl'], c['hd'], c['col'], c['sbc'])
                                                        for L in allcfg.values() for c in L})})
    for i in (0, nexh // 2, len(recs) - 1):
        rec = recs[i]
        ctx.sample({'expr': 'y = ' + render(rec['e']), 'd': {x: render(rec['d'][x]) for x in rec['vars']},
                    'dom': [[cn['k'], render(cn['e'])] for cn in rec['dom']]})
    ctx.rule = ('every expression tree with <= 2 operator nodes (depth <= 2) over {x0, x1, 2} x %d unary functions x 7 binary '
                'operators/functions x integer powers {2,3,-1} x negation (TLC, exhaustive: %d trees with a variable) plus %d '
                'distinct random trees from TLC -simulate (depth <= %d, <= %d operators, all 18 unary functions); each tree '
                'replayed into a real ExecComp for %d (random trees: %d) seeded configurations out of shapes {(1,), (), (3,), '
                '(2,2), scalar/array mixes} x declaration by value/shape/component shape x has_diag_partials x do_coloring x '
                'shape_by_conn (per variable / component option) x function aliases, at two seeded points satisfying Dom with '
                'margin %.2f; non-trivial = scenarios with array variables, has_diag_partials or shape_by_conn'
                % (len(UN_QUICK if quick else UN_ALL), nexh, len(sim), 3 if quick else 4, 4 if quick else 6, per_tree,
                   2 * per_tree, MARGIN))
    ctx.assumptions = [
        'primitive functions are evaluated by NumPy on the harness side (trusted base); the spec owns the tree, D and Dom',
        'evaluation points keep a margin of %.2f from kinks (abs), ties (maximum/minimum), poles and domain boundaries and '
        'keep all intermediate values below %g; tolerance 1e-9 x the largest intermediate magnitude' % (MARGIN, MAGMAX),
        'only elementwise expressions (no reductions, matmul, indexing); one expression per component',
        'sqrt is written as (e)**0.5 in ExecComp expressions (not in its function table)',
        'the exhaustive scope is by operator count (<= 2); the full depth-2 set with two non-leaf operands of a binary '
        'node is covered by the random trees only']
