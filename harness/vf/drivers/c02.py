"""C02 - forward and reverse linear operators are exact adjoints.

Spec: OMJudge.tla AdjOK (the identity <w, A v> = <A^T w, v> evaluated exactly by TLC on observed integer/rational
vectors) and JvOK (public Jacobian-vector and vector-Jacobian products against the exact TotalAll of OMModel.tla).
Operators driven on generated models: Problem.compute_jacvec_product (fwd and rev), and for every group of the model
run_apply_linear fwd/rev (outputs and external inputs -> residuals) and run_solve_linear fwd/rev under its linear solver."""
import random

import numpy as np

from .. import modelgen as mg
from .. import ombuild as ob
from .. import sysobs as so
from ..sysdriver import gen_model, run_tlc_judge
from ..tlc import MachineryError
from ..util import pmap, quiet, split

OPTS = {'storage': ['dense', 'rowscols', 'coo', 'csr', 'csc', 'diag', 'matfree'], 'cyc_frac': .3, 'voi_scaling': False, 'bil': .2}
STACK = {'storage': ['dense', 'rowscols', 'coo', 'csr', 'csc', 'diag'], 'depth': 2, 'ncomp': 5, 'cyc': False, 'stack_p': 1.}


def ivec(rng, n):
    return np.array([rng.randrange(-3, 4) for _ in range(n)], dtype=float)


def q(v, rtol=1e-9):
    return so.qvec(v, [None] * len(np.ravel(v)), rtol)


def tame(rec, lim=1 << 26):
    """TLC computes <w, A v> and <A^T w, v> in 32-bit integers: keep only records whose exact evaluation (emulated here
    term by term, as Rat.tla does it) stays far below that; the others are counted, not judged"""
    from fractions import Fraction as F

    def dot_ok(a, x):
        acc = F(0)
        for p_, q_ in zip(reversed(a), reversed(x)):
            if p_[1] == 0 or q_[1] == 0:
                return True          # NaN marker: TLC rejects it without arithmetic
            if abs(p_[0] * q_[0]) > lim or abs(p_[1] * q_[1]) > lim:
                return False
            t = F(p_[0], p_[1]) * F(q_[0], q_[1])
            if abs(t.numerator * acc.denominator) > lim or abs(acc.numerator * t.denominator) > lim or \
                    t.denominator * acc.denominator > lim:
                return False
            acc = acc + t
        return True
    for key in ('v', 'w', 'av', 'atw'):
        for n_, d_ in rec[key]:
            # (d_ == 0: the observed float is not a small rational - solves with wide denominators - judged in floats)
            if d_ == 0 or abs(n_) > 20000 or d_ > 1024:
                return False
    return dot_ok(rec['w'], rec['av']) and dot_ok(rec['atw'], rec['v'])


def observe(seed):
    from openmdao.core.analysis_error import AnalysisError
    opts = OPTS
    if seed % 3 == 0:
        opts = dict(OPTS, scaling=True)          # solver scaling (ref / ref0 / res_ref alone): the duality of the scaled operators
    elif seed % 5 == 0:
        opts = dict(OPTS, **STACK)               # assembled jacobian below a Krylov parent: scoped products
    md, ref, rng = gen_model(seed, opts)
    if md is None:
        return {'skip': 'rejected'}
    adj, jv, kinds, eqs, eqkinds, raws = [], [], [], [], [], []
    # results of ScipyKrylov solves are accurate to the GMRES tolerance only: they are quantised at 1e-6 (DESIGN.md C01)
    kry = any((sv.get('ln') or {}).get('name') == 'krylov' for sv in md['solvers'].values())
    qs = (lambda v: q(v, 1e-6)) if kry else q
    try:
        # ---- public API: jvp / vjp on the declared variables of interest --------------------------------
        p = ob.build(md, {'mode': 'rev'})
        p.run_model()
        p.model.run_linearize()
        ofs = [ob.out_path(md, r['oid']) for r in md['responses']]
        wrts = [ob.out_path(md, d['oid']) for d in md['desvars']]
        rsz = [len(so.voi_positions(md, r)) for r in md['responses']]
        csz = [len(so.voi_positions(md, d)) for d in md['desvars']]
        full_r = [int(np.prod(md['outs'][r['oid']]['shape'])) for r in md['responses']]
        full_c = [int(np.prod(md['outs'][d['oid']]['shape'])) for d in md['desvars']]
        # seeds live on the full variables; the spec's blocks follow the declared indices, so seed only there
        dup = len(set(ofs)) != len(ofs) or len(set(wrts)) != len(wrts)
        if not dup and not md.get('cycle'):
            vs = [ivec(rng, n) for n in csz]
            ws = [ivec(rng, n) for n in rsz]

            def embed(vals, v, n):
                a = np.zeros(n)
                pos = so.voi_positions(md, v)
                if len(set(pos)) != len(pos):
                    return None
                a[pos] = vals
                return a
            sv = [embed(x, d, n) for x, d, n in zip(vs, md['desvars'], full_c)]
            sw = [embed(x, r, n) for x, r, n in zip(ws, md['responses'], full_r)]
            if all(x is not None for x in sv + sw):
                p2 = ob.build(so.without_vois(md), {'mode': 'rev'})
                p2.run_model()
                p2.model.run_linearize()
                rf = p2.compute_jacvec_product(ofs, wrts, 'fwd', {w: s.reshape(md['outs'][d['oid']]['shape']) for w, s, d in zip(wrts, sv, md['desvars'])})
                rr = p2.compute_jacvec_product(ofs, wrts, 'rev', {o: s.reshape(md['outs'][r['oid']]['shape']) for o, s, r in zip(ofs, sw, md['responses'])})
                jfv = [np.ravel(rf[o])[so.voi_positions(md, r)] for o, r in zip(ofs, md['responses'])]
                jtw = [np.ravel(rr[w])[so.voi_positions(md, d)] for w, d in zip(wrts, md['desvars'])]
                na, nb = len(ofs), len(wrts)
                jv.append({'mode': 'fwd', 'of': list(range(1, na + 1)), 'wrt': list(range(1, nb + 1)),
                           'seed': [q(v) for v in vs], 'res': [qs(x) for x in jfv]})
                jv.append({'mode': 'rev', 'of': list(range(1, na + 1)), 'wrt': list(range(1, nb + 1)),
                           'seed': [q(w) for w in ws], 'res': [qs(x) for x in jtw]})
                adj.append({'v': q(np.concatenate(vs)), 'w': q(np.concatenate(ws)),
                            'av': qs(np.concatenate(jfv)), 'atw': qs(np.concatenate(jtw))})
                raws.append((np.concatenate(vs), np.concatenate(ws), np.concatenate(jfv), np.concatenate(jtw)))
                kinds.append('jacvec')
        # ---- internal operators of every group ---------------------------------------------------------
        p3 = ob.build(so.without_vois(md), {'mode': 'rev'})
        p3.run_model()
        p3.model.run_linearize()
        for gp in md['groups']:
            g = p3.model if gp == '' else p3.model._get_subsystem(gp)
            if g is None:
                continue
            pre = gp + '.' if gp else ''
            inside = [c for c in md['comps'] if (ob.comp_path(c) + '.').startswith(pre)]
            if not inside:
                continue
            cids = {c['id'] for c in inside}
            ext_in = [i for i in md['ins'] if i['comp'] in cids and md['outs'][i['src']]['comp'] not in cids]
            no, nr = len(g._doutputs), len(g._dresiduals)
            # apply_linear
            o_seed, r_seed = ivec(rng, no), ivec(rng, nr)
            i_seeds = {i['id']: ivec(rng, int(np.prod(i['shape']))) for i in ext_in}
            g._doutputs.set_val(o_seed)
            g._dinputs.set_val(0.0)
            for i in ext_in:
                g._dinputs[ob.in_path(md, i['id'])[len(pre):]] = i_seeds[i['id']].reshape(i['shape'])
            g._dresiduals.set_val(0.0)
            g.run_apply_linear('fwd')
            av = g._dresiduals.asarray(copy=True)
            g._dresiduals.set_val(r_seed)
            g._doutputs.set_val(0.0)
            g._dinputs.set_val(0.0)
            g.run_apply_linear('rev')
            ato = g._doutputs.asarray(copy=True)
            ati = [np.ravel(g._dinputs[ob.in_path(md, i['id'])[len(pre):]]).copy() for i in ext_in]
            adj.append({'v': q(np.concatenate([o_seed] + [i_seeds[i['id']] for i in ext_in])), 'w': q(r_seed),
                        'av': q(av), 'atw': q(np.concatenate([ato] + ati))})
            raws.append((np.concatenate([o_seed] + [i_seeds[i['id']] for i in ext_in]), r_seed, av, np.concatenate([ato] + ati)))
            kinds.append('apply_linear:' + gp)
            # the same product restricted to a scope of inputs: out-of-scope inputs are ignored (fwd) / left alone (rev),
            # i.e. A_s = A P_s; observed as  apply(scope, v) = apply(no scope, P_s v)  and  apply^T(scope, w) = P_s apply^T(w)
            if ext_in and len(ext_in) >= 1:
                keep = [i for i in ext_in if rng.random() < .5]
                scope = frozenset(ob.in_path(md, i['id']) for i in keep) | \
                    frozenset(ob.in_path(md, i['id']) for i in md['ins'] if i['comp'] in cids and i not in ext_in)

                def fwd(scope_in, seeds):
                    g._doutputs.set_val(o_seed)
                    g._dinputs.set_val(0.0)
                    for i in ext_in:
                        g._dinputs[ob.in_path(md, i['id'])[len(pre):]] = seeds[i['id']].reshape(i['shape'])
                    g._dresiduals.set_val(0.0)
                    g.run_apply_linear('fwd', None, scope_in)
                    return g._dresiduals.asarray(copy=True)
                proj = {i['id']: (i_seeds[i['id']] if i in keep else np.zeros_like(i_seeds[i['id']])) for i in ext_in}
                a1 = fwd(scope, i_seeds)
                a2 = fwd(None, proj)
                eqs.append({'a': q(a1), 'b': q(a2)})
                eqkinds.append('scoped apply_linear fwd:' + gp)
                g._dresiduals.set_val(r_seed)
                g._doutputs.set_val(0.0)
                g._dinputs.set_val(0.0)
                g.run_apply_linear('rev', None, scope)
                b1 = np.concatenate([g._doutputs.asarray(copy=True)] +
                                    [np.ravel(g._dinputs[ob.in_path(md, i['id'])[len(pre):]]).copy() for i in ext_in])
                b2 = np.concatenate([ato] + [x if i in keep else np.zeros_like(x) for i, x in zip(ext_in, ati)])
                eqs.append({'a': q(b1), 'b': q(b2)})
                eqkinds.append('scoped apply_linear rev:' + gp)
            # solve_linear (a group below a solver that never recurses has not been linearized yet)
            if gp != '':
                g.run_linearize()
            r2, u2 = ivec(rng, nr), ivec(rng, no)
            g._dresiduals.set_val(r2)
            g._doutputs.set_val(0.0)
            g.run_solve_linear('fwd')
            sr = g._doutputs.asarray(copy=True)
            g._doutputs.set_val(u2)
            g._dresiduals.set_val(0.0)
            g.run_solve_linear('rev')
            stu = g._dresiduals.asarray(copy=True)
            adj.append({'v': q(r2), 'w': q(u2), 'av': qs(sr), 'atw': qs(stu)})
            raws.append((r2, u2, sr, stu))
            kinds.append('solve_linear:' + gp)
    except AnalysisError:
        return {'skip': 'noconv'}
    except Exception as e:
        import traceback
        return {'exc': '%s: %s' % (type(e).__name__, e), 'tb': traceback.format_exc()[-1500:], 'md': md}
    keep = [k for k, a in enumerate(adj) if tame(a)]
    untamed = len(adj) - len(keep)
    # records beyond TLC's 32-bit arithmetic are judged here in floating point (1e-6): the identity itself is the
    # specification's AdjOK, only its evaluation moves
    fbad = []
    for k, a in enumerate(adj):
        if k in keep:
            continue
        v_, w_, av_, atw_ = [np.asarray(x, dtype=float).ravel() for x in raws[k]]
        lhs, rhs = float(np.dot(w_, av_)), float(np.dot(atw_, v_))
        if not abs(lhs - rhs) <= 1e-6 * (1 + abs(lhs) + abs(rhs)):
            fbad.append({'kind': kinds[k], 'lhs': lhs, 'rhs': rhs, 'rec': a})
    adj = [adj[k] for k in keep]
    kinds = [kinds[k] for k in keep]
    case = so.case_record(md, ref, [], [], adj, jv)
    case['eqs'] = eqs
    return {'case': case, 'md': md, 'kinds': kinds, 'eqkinds': eqkinds, 'seed': seed, 'untamed': untamed, 'fbad': fbad}


def _worker(seeds):
    quiet()
    return [observe(s) for s in seeds]


def run(ctx):
    quick = ctx.tier == 'quick'
    n = 200 if quick else 2600
    base = 5000011 * (1 + ctx.seed % 1000)
    res = [r for rs in pmap(_worker, [c for c in split(list(range(base, base + n)), 48) if c]) for r in rs]
    for r in res:
        if 'exc' in r:
            ctx.violation({'model': r['md']}, 'linear operators run', r['exc'], 'exception from OpenMDAO: ' + r['exc'].split(':')[0],
                          snippet=r['tb'])
    cases = [r for r in res if 'case' in r]
    if not cases:
        raise MachineryError('no cases')
    v = run_tlc_judge(ctx, [r['case'] for r in cases])
    nops = 0
    for k, r in enumerate(cases):
        vv = v[k + 1]
        if not vv['oracle']:
            raise MachineryError('oracle cross-check failed for seed %d' % r['seed'])
        for j, ok in enumerate(vv['adj']):
            nops += 1
            ctx.note_nontrivial('%d:%s' % (r['seed'], r['kinds'][j]))
            if not ok:
                ctx.violation({'seed': r['seed'], 'operator': r['kinds'][j], 'model': r['md']}, '<w, A v> = <A^T w, v>',
                              r['case']['adj'][j], 'adjoint identity fails for ' + r['kinds'][j].split(':')[0])
        for fb in r.get('fbad', []):
            nops += 1
            ctx.violation({'seed': r['seed'], 'operator': fb['kind'], 'model': r['md']}, '<w, A v> = <A^T w, v>',
                          {'<w,Av>': fb['lhs'], '<A^T w,v>': fb['rhs'], 'record': fb['rec']},
                          'adjoint identity fails for ' + fb['kind'].split(':')[0] + ' (judged in floating point: beyond 32-bit rationals)')
        for j, ok in enumerate(vv['eqs']):
            nops += 1
            ctx.note_nontrivial('%d:%s' % (r['seed'], r['eqkinds'][j]))
            if not ok:
                ctx.violation({'seed': r['seed'], 'operator': r['eqkinds'][j], 'model': r['md']}, 'product with a scope = product of the projected argument',
                              r['case']['eqs'][j], 'scoped product differs for ' + r['eqkinds'][j].split(':')[0])
        for j, ok in enumerate(vv['jv']):
            nops += 1
            if not ok:
                ctx.violation({'seed': r['seed'], 'jv': r['case']['jv'][j]['mode'], 'model': r['md']}, 'J v / J^T w from the exact Jacobian',
                              r['case']['jv'][j], 'compute_jacvec_product (%s) differs from the exact product' % r['case']['jv'][j]['mode'])
    ctx.impl = nops
    ctx.evaluations = nops
    ctx.extra['models'] = len(cases)
    ctx.extra['adjoint_records_beyond_32bit_arithmetic_judged_in_floats'] = sum(r.get('untamed', 0) for r in cases)
    for r in cases[:2]:
        ctx.sample({'seed': r['seed'], 'operators': r['kinds'], 'first': r['case']['adj'][0] if r['case']['adj'] else None})
    ctx.rule = ('generated models; integer seed vectors in -3..3; operators: compute_jacvec_product fwd/rev (exact J v and J^T w and '
                'the identity), run_apply_linear fwd/rev (also restricted to a scope of inputs) and run_solve_linear fwd/rev of every group; '
                'a third of the models carry solver scaling, some are three-level solver stacks; non-trivial = distinct '
                '(model, operator) pairs judged')
    ctx.assumptions = ['affine models (exact arithmetic); seeds are integers so all products are small rationals',
                       'problems are set up in rev mode so that both transfer directions exist']
