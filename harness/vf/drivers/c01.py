"""C01 - total derivatives equal the exact derivative of the converged model.

Spec: spec/sys/OMModel.tla (denotation: index chains via NdIndex, unit maps, affine components, feed-forward pass,
fixpoint characterisation for feedback, TotalAll / Block / ScaledBlock) and spec/sys/OMJudge.tla.  Generated models
(nested groups, promotion chains with src_indices, units, implicit components, feedback cycles, all sub-jacobian storage
kinds, design-variable / response indices and scaling) are run under several configurations (mode x linear solver x
assembled jacobian type x return format x driver scaling x total coloring off/direct/substitution); TLC computes the exact expected values and judges every
observed block."""
from ..sysdriver import collect, run_tlc_judge
from ..tlc import MachineryError

OPTS = {'storage': ['dense', 'rowscols', 'coo', 'csr', 'csc', 'diag', 'matfree'], 'bil': .2}


STACK_OPTS = {'storage': ['dense', 'rowscols', 'coo', 'csr', 'csc', 'diag'], 'depth': 2, 'ncomp': 5, 'cyc': False,
              'stack_p': 1., 'modes': ['rev', 'fwd'], 'voi_bare_nd': False}


def pred_voi_bare_nd(scn, info):
    """known finding (root cause = C05-nontuple-index-nd-source-flat-positions): a design variable or response
    declared with a NON-tuple int / slice / array index and flat_indices=False on a multi-dimensional variable"""
    md = scn.get('model') or {}
    cl = info.get('clause', '')
    if 'block' not in cl:
        # the same defect can also surface as an exception while the total jacobian is scattered
        ob = str(info.get('observed', ''))
        if not ('exception from OpenMDAO' in cl and (ob.startswith('IndexError') or 'shape mismatch' in ob
                                                       or 'broadcast' in ob)):
            return False
    for v in md.get('desvars', []) + md.get('responses', []):
        t = v.get('indices_term')
        if t is not None and t['k'] in ('int', 'slice', 'arr') and not v.get('flat_indices') and \
                len(md['outs'][v['oid']]['shape']) > 1:
            return True
    return False


def run(ctx, opts=None, pid='C01'):
    quick = ctx.tier == 'quick'
    n = 240 if quick else 3000
    base = 1000003 * (ctx.seed % 1000)
    ctx.register_predicates({'C01-voi-nontuple-index-nd': pred_voi_bare_nd})
    res = collect(ctx, range(base, base + n), dict(OPTS, voi_bare_nd=True, **(opts or {})), 3 if quick else 6, want_runs=True)
    judge(ctx, res)
    # family "solver stacks": three-level hierarchies with an assembled jacobian below a Krylov parent (the sub-group's
    # products are requested for a different variable subset per right-hand side), derivative direction forced
    ns = 120 if quick else 1200
    res = collect(ctx, range(base + 500000, base + 500000 + ns), dict(STACK_OPTS, **(opts or {})), 2 if quick else 4,
                  want_runs=False)
    judge(ctx, res, clause_prefix='[solver stack] ')
    # mechanism family: the cache of linear solutions keyed on the right-hand side (rhs_checking option)
    from vf.drivers import c01rhs
    c01rhs.run_rhs_cache(ctx)


def judge(ctx, res, clause_prefix=''):
    cases = [r for r in res if 'case' in r]
    skipped = [r for r in res if 'skip' in r]
    for r in res:
        if 'exc' in r:
            ctx.violation({'seed': r['seed'], 'model': r['md']}, 'setup/run/compute_totals succeed for a legal model',
                          r['exc'], 'exception from OpenMDAO: ' + r['exc'].split(':')[0], snippet=r['tb'])
    if not cases:
        raise MachineryError('no cases generated')
    v = run_tlc_judge(ctx, [r['case'] for r in cases])
    ncfg = 0
    for k, r in enumerate(cases):
        vv = v[k + 1]
        if not vv['oracle']:
            raise MachineryError('TLA+ denotation and the Fraction reference disagree on seed %d' % r['seed'])
        for j, rv in enumerate(vv['runs']):
            if not rv['out']:
                ctx.violation({'seed': r['seed'], 'model': r['md']}, 'outputs = converged state', r['case']['runs'][j]['out'],
                              clause_prefix + 'converged outputs differ from the denotation')
            if not rv['inp']:
                ctx.violation({'seed': r['seed'], 'model': r['md']}, 'inputs = source[chain] converted', r['case']['runs'][j]['inp'],
                              clause_prefix + 'an input differs from its source through the index chain / units')
        done = [c for c in r['meta']['cfgs'] if 'skipped' not in c]
        for j, cv in enumerate(vv['cfgs']):
            ncfg += 1
            c = done[j]
            key = (c['mode'], c['ln'][0], str(c['ln'][1]), c['fmt'], c['scaled'], c.get('coloring'), r['meta']['cyclic'], r['meta']['chains'])
            ctx.note_nontrivial(str((r['seed'],) + key))
            if not cv['full']:
                ctx.violation({'seed': r['seed'], 'cfg': c, 'model': r['md']}, r['case']['ref']['full'], r['case']['cfgs'][j]['full'],
                              clause_prefix + 'd(outputs)/d(independents) differs from the exact derivative')
            elif not cv['blocks']:
                ctx.violation({'seed': r['seed'], 'cfg': c, 'model': r['md']}, 'blocks of TotalAll (rows/cols by indices, scaled)',
                              r['case']['cfgs'][j]['blocks'], clause_prefix + 'design-variable/response block differs from the exact derivative',
                              info={'clause': 'block'})
    ctx.impl += len(cases)
    ctx.evaluations += ncfg + len(cases)
    ctx.extra['configurations_judged'] = ctx.extra.get('configurations_judged', 0) + ncfg
    ctx.extra['models_skipped'] = ctx.extra.get('models_skipped', 0) + len(skipped)
    ctx.extra['cyclic_models'] = ctx.extra.get('cyclic_models', 0) + sum(1 for r in cases if r['meta']['cyclic'])
    for r in cases[:2]:
        ctx.sample({'seed': r['seed'], 'meta': r['meta'],
                    'connections': [{'chain': i['chain'], 'how': i.get('how')} for i in r['md']['ins']][:4]})
    ctx.rule = ('seeded model descriptions (2-5 components, <=2 group levels, promotion chains with src_indices, units, implicit '
                'components, feedback cycles, 7 sub-jacobian storage kinds, desvar/response indices+scaling); each judged by TLC '
                'against the exact denotation under several (mode, linear solver, jacobian type, return format, driver scaling) '
                'configurations (incl. total coloring and the rhs_checking cache); a second family of three-level solver stacks; the '
                'cache of linear solutions (LinearRHSChecker) model-checked (RhsCache.tla) and validated on traces of the real object; '
                'non-trivial = distinct (model, configuration) pairs judged + cache traces with hits')
    ctx.assumptions = ['affine components with integer/rational coefficients (exact oracle); solvers run to 1e-14',
                       'ScipyKrylov results compared at 1e-7', 'no MPI, no distributed variables']
