"""C18 - case recordings survive a crash at any point as a consistent prefix.

Spec: spec/mech/CaseDB.tla (+ CaseDBMC.tla, CaseDBTrace.tla).  The SQLite file is `durable` (committed rows) + `txn`
(uncommitted buffer); `Crash` is enabled in every state.

(a) TLC checks CrashPrefix / Atomicity / CompleteRun / StartedOpens / Executable exhaustively over every bounded
    recorded run; the deliberately broken variant (Broken = TRUE: COMMIT between a case row and its global row) and the
    two pre-startup non-theorems must be REFUTED by TLC (non-vacuity).
(b) V: the statement stream of real recordings (sqlite3 trace callback on the recorder's connection, installed in a
    child process by replacing the name `sqlite3` inside openmdao.recorders.sqlite_recorder) is replayed through the
    statement operators of CaseDB by CaseDBTrace.tla, which also says for every statement boundary whether the first
    startup is complete, whether a transaction is open and how many cases are durable.
(c) K: for EVERY statement boundary k of a run a forked child repeats the recording and dies (os._exit(9)) immediately
    before statement k; the parent opens the file with om.CaseReader and compares with the uncrashed reference and
    with what the spec says for that boundary.  Thorough adds more runs and SIGKILL at random wall-clock times.

Stand-alone reproduction of one crash point (no TLC):
    PYTHONPATH=/verif/harness /venv/bin/python -m vf.drivers.c18 '<run spec as json>' <file label> <j>
"""
import json
import os
import random
import signal
import sys
import time
import traceback

from ..tlc import MachineryError
from ..util import pmap, quiet, split

PAR = int(os.environ.get('VERIF_C18_PAR', '16'))
TLC_WORKERS = int(os.environ.get('VERIF_C18_TLC_WORKERS', '4'))

RT2TABLE = {'driver': 'driver_iterations', 'system': 'system_iterations', 'solver': 'solver_iterations',
            'problem': 'problem_cases'}
REQ = ('problem', 'driver', 'system', 'solver')


# ------------------------------------------------------------------------------------------------------------
# the recorded runs
# ------------------------------------------------------------------------------------------------------------
def mkrun(name, driver='doe', ncases=2, files=None, maxiter=3, solver='nlbgs', opts=None, final=True, scope='all'):
    """files: requester -> file label (same label = same SqliteRecorder object)."""
    files = files if files is not None else {r: 'a' for r in REQ}
    return {'name': name, 'driver': driver, 'ncases': ncases, 'files': files, 'maxiter': maxiter, 'solver': solver,
            'opts': opts or {}, 'final': final, 'scope': scope}


def quick_runs(quick=True):
    return [
        # every requester on one file, DOE with 2 cases, 3 solver iterations per case, a final problem case
        mkrun('doe-all-onefile', 'doe', 2),
        # optimizer run with derivative rows (driver_derivatives has no global row), driver + problem on separate files
        mkrun('slsqp-driver-problem-twofiles', 'scipy', 2, {'driver': 'a', 'problem': 'b'},
              opts={'driver': {'record_derivatives': True, 'record_inputs': True}}, scope='cases' if quick else 'all'),
    ]


def thorough_runs(rng):
    runs = list(quick_runs(False))
    runs += [
        mkrun('doe-solver-only', 'doe', 3, {'solver': 'a'}),
        mkrun('doe-system-only', 'doe', 3, {'system': 'a'}, opts={'system': {'record_residuals': False}}),
        mkrun('doe-driver-only-derivs', 'doe', 3, {'driver': 'a'},
              opts={'driver': {'record_derivatives': True, 'record_residuals': True, 'record_inputs': True}}),
        mkrun('model-problem-only', 'model', 3, {'problem': 'a'}, opts={'problem': {'record_derivatives': True}}),
        mkrun('model-system-solver', 'model', 1, {'system': 'a', 'solver': 'a'}, maxiter=4),
        mkrun('doe-four-files', 'doe', 2, {'problem': 'a', 'driver': 'b', 'system': 'c', 'solver': 'd'}),
        mkrun('newton-linesearch', 'doe', 2, {'driver': 'a', 'solver': 'a', 'linesearch': 'a'}, solver='newton', maxiter=2),
        mkrun('slsqp-all-onefile', 'scipy', 3, None, maxiter=2,
              opts={'driver': {'record_derivatives': True}, 'solver': {'record_abs_error': False, 'record_inputs': True}}),
        mkrun('doe-nofinal-sys-drv', 'doe', 4, {'driver': 'a', 'system': 'b'}, maxiter=1, final=False,
              opts={'driver': {'includes': ['y1'], 'record_objectives': False}}),
        mkrun('doe-10-cases', 'doe', 10, {'driver': 'a', 'solver': 'a'}, maxiter=2),   # counters / ids pass 9 -> 10
    ]
    # a few random attachment / file-sharing / option combinations
    for i in range(4):
        att = [r for r in REQ if rng.random() < .6] or ['driver']
        labels = 'ab' if rng.random() < .5 else 'a'
        files = {r: rng.choice(labels) for r in att}
        opts = {r: {'record_inputs': rng.random() < .5, 'record_residuals': rng.random() < .5}
                for r in att if r in ('system', 'driver', 'problem')}
        drv = rng.choice(['doe', 'scipy', 'model'])
        # (iteration coordinates restart with every run_model call: system / solver case names would repeat)
        n = 1 if drv == 'model' and ('system' in files or 'solver' in files) else rng.randrange(1, 4)
        runs.append(mkrun('random-%d' % i, drv, n, files,
                          maxiter=rng.randrange(1, 4), opts=opts, final=rng.random() < .5))
    return runs


def build_and_run(run, workdir, before_cleanup=None):
    """Build the coupled model of `run`, attach the recorders, run it.  Files are <workdir>/<label>.sql."""
    import openmdao.api as om
    p = om.Problem(name='c18_%s' % run['name'].replace('-', '_'))
    m = p.model
    m.add_subsystem('ivc', om.IndepVarComp('x', 1.0), promotes=['*'])
    cyc = m.add_subsystem('cycle', om.Group(), promotes=['*'])
    cyc.add_subsystem('d1', om.ExecComp('y1 = 0.5*y2 + x'), promotes=['*'])
    cyc.add_subsystem('d2', om.ExecComp('y2 = 0.25*y1 + 1'), promotes=['*'])
    if run['solver'] == 'newton':
        cyc.nonlinear_solver = om.NewtonSolver(solve_subsystems=False, maxiter=run['maxiter'], iprint=-1,
                                               err_on_non_converge=False, atol=1e-30, rtol=1e-30)
        cyc.nonlinear_solver.linesearch = om.ArmijoGoldsteinLS(maxiter=2, iprint=-1)
        cyc.linear_solver = om.DirectSolver()
    else:
        cyc.nonlinear_solver = om.NonlinearBlockGS(maxiter=run['maxiter'], iprint=-1, err_on_non_converge=False,
                                                   atol=1e-30, rtol=1e-30)
    m.add_subsystem('obj', om.ExecComp('f = (y1 - 3)**2 + y2'), promotes=['*'])
    m.add_subsystem('con', om.ExecComp('g = y1 + y2'), promotes=['*'])
    m.add_design_var('x', lower=0, upper=10)
    m.add_objective('f')
    m.add_constraint('g', upper=20.)
    if run['driver'] == 'doe':
        p.driver = om.DOEDriver(om.ListGenerator([[('x', 1.0 + i)] for i in range(run['ncases'])]))
    elif run['driver'] == 'scipy':
        p.driver = om.ScipyOptimizeDriver(optimizer='SLSQP', maxiter=run['ncases'], disp=False)
    recs = {}
    target = {'problem': p, 'driver': p.driver, 'system': cyc, 'solver': cyc.nonlinear_solver}
    if run['solver'] == 'newton':
        target['linesearch'] = cyc.nonlinear_solver.linesearch
    for req, label in sorted(run['files'].items()):
        if label not in recs:
            recs[label] = om.SqliteRecorder(os.path.join(workdir, label + '.sql'))
        target[req].add_recorder(recs[label])
        for k, v in run['opts'].get(req, {}).items():
            target[req].recording_options[k] = v
    p.setup()
    if run['driver'] == 'model':
        for i in range(run['ncases']):
            p.set_val('x', 1.0 + i)
            p.run_model()
            if 'problem' in run['files']:
                p.record('run%d' % i)
    else:
        p.run_driver()
    if run['final'] and 'problem' in run['files']:
        p.record('final')
    if before_cleanup:
        before_cleanup()
    p.cleanup()


# ------------------------------------------------------------------------------------------------------------
# the sqlite3 proxy (child processes only)
# ------------------------------------------------------------------------------------------------------------
def abstract(stmt):
    s = stmt.lstrip()
    w = s.split(None, 3)
    head = w[0].upper() if w else ''
    if head == 'BEGIN':
        return {'op': 'BEGIN', 't': '', 'rt': ''}
    if head == 'COMMIT':
        return {'op': 'COMMIT', 't': '', 'rt': ''}
    if head == 'ROLLBACK':
        return {'op': 'ROLLBACK', 't': '', 'rt': ''}
    if head == 'CREATE' and len(w) >= 3:
        return {'op': 'CREATE', 't': w[2].split('(')[0], 'rt': ''}
    if head == 'INSERT' and len(w) >= 3:
        t = w[2].split('(')[0]
        rt = ''
        if t == 'global_iterations':
            i = s.find('VALUES(')
            val = s[i + 7:i + 20]
            for k, v in RT2TABLE.items():
                if val.startswith("'%s'" % k):
                    rt = v
            if not rt:
                rt = 'unparsed'
        return {'op': 'INSERT', 't': t, 'rt': rt}
    if head == 'UPDATE' and len(w) >= 2:
        return {'op': 'UPDATE', 't': w[1], 'rt': ''}
    return {'op': 'OTHER', 't': head, 'rt': ''}


def install_proxy(on_stmt):
    """Replace the name `sqlite3` inside openmdao.recorders.sqlite_recorder by a module object whose connect()
    returns connections that report every statement (incl. implicit BEGIN / COMMIT) to on_stmt(label, sql)
    immediately BEFORE the statement is executed."""
    import sqlite3
    import types
    import openmdao.recorders.sqlite_recorder as sr

    class Conn(sqlite3.Connection):
        def __init__(self, database, *a, **kw):
            super().__init__(database, *a, **kw)
            label = os.path.splitext(os.path.basename(str(database)))[0]
            self.set_trace_callback(lambda sql: on_stmt(label, sql))

    proxy = types.ModuleType('sqlite3')
    proxy.__dict__.update({k: v for k, v in sqlite3.__dict__.items() if not k.startswith('__')})

    def connect(database, *a, **kw):
        kw.setdefault('factory', Conn)
        return sqlite3.connect(database, *a, **kw)
    proxy.connect = connect
    sr.sqlite3 = proxy


def child_main(run, workdir, at=None, log_live=False):
    """Body of a child process: record `run` into workdir.  at = None: run to completion; at = [label, j]: die
    immediately before the j-th statement of the connection to <label>.sql; at = ['', 0]: die after the last statement,
    before the recorder is shut down.  (With several files the interleaving of the connections' statements depends on
    the iteration order of a set of recorder objects, so boundaries are addressed per file.)  Never returns."""
    code = 3
    try:
        sys.stdout.flush()
        sys.stderr.flush()
        dn = os.open(os.devnull, os.O_WRONLY)
        os.dup2(dn, 1)
        os.dup2(dn, 2)
        quiet()
        os.makedirs(workdir, exist_ok=True)
        os.environ['OPENMDAO_WORKDIR'] = workdir
        events = []
        count = {}
        live = os.open(os.path.join(workdir, 'live.log'), os.O_WRONLY | os.O_CREAT | os.O_APPEND) if log_live else None

        def die():
            try:        # (sqlite3 swallows exceptions raised inside a trace callback: never leave this function)
                with open(os.path.join(workdir, 'events.json'), 'w') as f:
                    json.dump(events, f)
            finally:
                os._exit(9)

        def on_stmt(label, sql):
            count[label] = count.get(label, 0) + 1
            if at and at[0] == label and count[label] == at[1]:
                die()
            e = abstract(sql)
            e['f'] = label
            events.append(e)
            if live is not None:
                os.write(live, ('%s %d %.6f\n' % (label, count[label], time.time())).encode())

        install_proxy(on_stmt)
        build_and_run(run, workdir, before_cleanup=die if at else None)
        with open(os.path.join(workdir, 'events.json'), 'w') as f:
            json.dump(events, f)
        code = 0
    except BaseException:
        try:
            with open(os.path.join(workdir, 'child_error.txt'), 'w') as f:
                f.write(traceback.format_exc())
        except Exception:
            pass
    finally:
        os._exit(code)


def spawn(run, workdir, at=None, log_live=False):
    sys.stdout.flush()
    pid = os.fork()
    if pid == 0:
        child_main(run, workdir, at, log_live)
    return pid


def wait(pid, workdir, expect):
    _, st = os.waitpid(pid, 0)
    code = os.WEXITSTATUS(st) if os.WIFEXITED(st) else -os.WTERMSIG(st)
    if code not in expect:
        err = ''
        try:
            err = open(os.path.join(workdir, 'child_error.txt')).read()
        except OSError:
            pass
        raise MachineryError('child in %s ended with %r (expected %r)\n%s' % (workdir, code, expect, err[-2000:]))
    return code


# ------------------------------------------------------------------------------------------------------------
# reading a file back
# ------------------------------------------------------------------------------------------------------------
def _vals(d):
    import numpy as np
    if d is None:
        return None
    return {str(n): np.asarray(d[n]).tolist() for n in d.keys()}


def case_data(c):
    return {'name': c.name, 'source': c.source, 'counter': c.counter, 'success': c.success, 'msg': c.msg,
            'abs_err': c.abs_err, 'rel_err': c.rel_err, 'inputs': _vals(c.inputs), 'outputs': _vals(c.outputs),
            'residuals': _vals(c.residuals),
            'derivatives': None if c.derivatives is None else
            {'%s,%s' % tuple(key): __import__('numpy').asarray(c.derivatives[key]).tolist() for key in c.derivatives.keys()}}


def raw_rows(path):
    """Committed rows straight from the file: {table: [ids]}, [(record_type, rowid)], [coordinates of derivative rows]."""
    import sqlite3
    con = sqlite3.connect('file:%s?mode=ro' % path, uri=True)
    try:
        have = {r[0] for r in con.execute("SELECT name FROM sqlite_master WHERE type='table'")}
        rows = {t: [r[0] for r in con.execute('SELECT id FROM %s ORDER BY id' % t)] for t in RT2TABLE.values() if t in have}
        glob = [(RT2TABLE.get(r[0], r[0]), r[1]) for r in con.execute('SELECT record_type, rowid FROM global_iterations ORDER BY id')] \
            if 'global_iterations' in have else []
        derivs = [r[0] for r in con.execute('SELECT iteration_coordinate FROM driver_derivatives ORDER BY id')] \
            if 'driver_derivatives' in have else []
    finally:
        con.close()
    return rows, glob, derivs


def read_file(path, with_cases=True):
    """-> {'open': True, 'list': [...], 'cases': {name: data}, 'by_source': {...}} or {'open': False, 'error': ...}"""
    import openmdao.api as om
    if not os.path.exists(path):
        return {'open': False, 'error': 'no file'}
    try:
        cr = om.CaseReader(path)
    except Exception as e:
        return {'open': False, 'error': '%s: %s' % (type(e).__name__, str(e)[:200])}
    out = {'open': True}
    try:
        out['list'] = list(cr.list_cases(out_stream=None))
        out['sources'] = sorted(cr.list_sources(out_stream=None))
        out['by_source'] = {s: list(cr.list_cases(s, recurse=False, out_stream=None)) for s in out['sources']}
        if with_cases:
            out['cases'] = {n: case_data(cr.get_case(n)) for n in out['list']}
    except Exception as e:
        out['read_error'] = '%s: %s\n%s' % (type(e).__name__, str(e)[:200], traceback.format_exc()[-600:])
    try:
        out['rows'], out['glob'], out['derivs'] = raw_rows(path)
    except Exception as e:
        out['read_error'] = out.get('read_error', '') + ' raw: %s: %s' % (type(e).__name__, e)
    return out


def same(a, b):
    """Equality of two case_data records (NaN-aware, exact otherwise)."""
    import numpy as np
    if isinstance(a, dict) and isinstance(b, dict):
        return a.keys() == b.keys() and all(same(a[k], b[k]) for k in a)
    if isinstance(a, (list, float, int)) and isinstance(b, (list, float, int)) and not isinstance(a, bool):
        try:
            return bool(np.array_equal(np.asarray(a, dtype=float), np.asarray(b, dtype=float), equal_nan=True))
        except (TypeError, ValueError):
            return a == b
    return a == b


# ------------------------------------------------------------------------------------------------------------
# judging one crashed file against the reference and the spec's statement-boundary observation
# ------------------------------------------------------------------------------------------------------------
def judge_file(ref, obs, got, exact=True):
    """ref: reference read of the complete file; obs: spec observation at the boundary [started, mark, ncases] (or a
    list of admissible observations for a kill at an unknown point between two boundaries); got: read of the crashed
    file.  Returns (bucket, clause or None, detail); bucket 'post+torn-derivs' = held, and the last driver case is listed
    while its driver_derivatives row (a separate record written later in its own transaction) is not yet durable."""
    obss = obs if isinstance(obs, list) else [obs]
    if not all(o['started'] for o in obss):
        return ('pre-startup-' + ('opens' if got['open'] else 'fails'), None, got.get('error'))
    if not got['open']:
        return ('post', 'file does not open with CaseReader after a crash that follows the first startup', got.get('error'))
    if 'read_error' in got:
        return ('post', 'listing / reading the cases of the crashed file raises', got['read_error'])
    lst, full = got['list'], ref['list']
    if lst != full[:len(lst)]:
        return ('post', 'list_cases() is not a prefix of the complete run', {'got': lst, 'full': full})
    if len(lst) not in [o['ncases'] for o in obss]:
        return ('post', 'the listed cases are not exactly the committed ones (spec: durable = committed transactions)',
                {'listed': len(lst), 'committed': [o['ncases'] for o in obss]})
    # per source listings agree with the global order
    for s, names in got['by_source'].items():
        want = [n for n in lst if n in set(ref['by_source'].get(s, []))]
        if names != want:
            return ('post', 'list_cases(source) disagrees with the global case order (a case row without its global row)',
                    {'source': s, 'got': names, 'want': want})
    if sorted(got['by_source']) != sorted(s for s in ref['by_source'] if any(n in lst for n in ref['by_source'][s])):
        return ('post', 'list_sources() names a source without a listed case', {'got': sorted(got['by_source'])})
    # rows: one global row per case row and vice versa
    rows, glob = got['rows'], got['glob']
    pairs = sorted((t, i) for t in rows for i in rows[t])
    if sorted(glob) != pairs or len(set(glob)) != len(glob):
        return ('post', 'case rows and global_iterations rows are not one-to-one', {'case_rows': pairs, 'global_rows': glob})
    # derivative rows (own table, own transaction, no global row): exactly the committed ones, in order
    if got['derivs'] != ref['derivs'][:len(got['derivs'])] or len(got['derivs']) not in [o['nderivs'] for o in obss]:
        return ('post', 'the driver_derivatives rows are not exactly the committed ones',
                {'got': got['derivs'], 'full': ref['derivs'], 'committed': [o['nderivs'] for o in obss]})
    torn = False
    for n in lst:
        g, r = dict(got['cases'][n]), dict(ref['cases'][n])
        gd, rd = g.pop('derivatives'), r.pop('derivatives')
        if not same(g, r):
            return ('post', 'a listed case differs from the same case of the complete run',
                    {'case': n, 'got': got['cases'][n], 'ref': ref['cases'][n]})
        if not same(gd, rd):
            # the derivatives of a driver case are a separate record: absent is admissible iff that record is not durable
            if gd is None and g['source'] == 'driver' and n not in got['derivs'] and n in ref['derivs']:
                torn = True
            else:
                return ('post', 'the derivatives of a listed case differ from those of the complete run',
                        {'case': n, 'got': gd, 'ref': rd})
    return ('post+torn-derivs' if torn else 'post', None, None)


_REF = {}      # run name -> reference (set in the parent before the pool forks)


def _labels(run):
    return sorted(set(run['files'].values()))


def per_file(events, lab):
    return [{'op': e['op'], 't': e['t'], 'rt': e['rt']} for e in events if e['f'] == lab]


def crash_point(run, ref, at, workdir):
    """Run the recording, die at boundary `at` = [label, j], judge every file.  -> result record."""
    pid = spawn(run, workdir, at)
    wait(pid, workdir, (9,))
    try:
        with open(os.path.join(workdir, 'events.json')) as f:
            ev = json.load(f)
    except (OSError, ValueError) as e:
        raise MachineryError('child at %r of run %s left no statement log (%s); directory holds %r'
                             % (at, run['name'], e, os.listdir(workdir) if os.path.isdir(workdir) else None))
    res = {'at': at, 'files': {}}
    for lab in _labels(run):
        mine = per_file(ev, lab)
        j = len(mine)                                                     # statements of this file already executed
        if mine != ref['stream'][lab][:j] or (at[0] == lab and j != at[1] - 1) or (at[0] == '' and j != len(ref['stream'][lab])):
            raise MachineryError('run %s is not deterministic: statement stream of file %s before boundary %r differs from '
                                 'the reference' % (run['name'], lab, at))
        obs = ref['hist'][lab][j]                                         # spec: state before this file's statement j+1
        got = read_file(os.path.join(workdir, lab + '.sql'))
        bucket, clause, detail = judge_file(ref['read'][lab], obs, got)
        res['files'][lab] = {'j': j + 1, 'obs': obs, 'bucket': bucket, 'clause': clause, 'detail': detail,
                             'ncases': len(got.get('list', [])) if got['open'] else None}
    return res


def _points_worker(job):
    quiet()
    name, ats, base = job
    run, ref = _REF[name]['run'], _REF[name]
    out = []
    for at in ats:
        wd = os.path.join(base, '%s-%s%d' % (name, at[0], at[1]))
        try:
            out.append(crash_point(run, ref, at, wd))
        except MachineryError as e:
            out.append({'at': at, 'machinery': str(e)})
        _rm(wd)
    return name, out


def _rm(d):
    import shutil
    shutil.rmtree(d, ignore_errors=True)


def kill_point(run, ref, delay, workdir):
    """SIGKILL the recording child at a random wall-clock time: delay = (u, extra); the signal is sent `extra` seconds
    after the child has begun its (u * N)-th statement (polling its live log), so that the kills spread over the whole
    recording whatever the machine load; the signal arrives asynchronously, possibly in the middle of a statement."""
    pid = spawn(run, workdir, None, log_live=True)
    target = int(delay[0] * len(ref['events']))
    live = os.path.join(workdir, 'live.log')
    t_end = time.time() + 600
    done = 0
    while time.time() < t_end:
        try:
            if target <= 0 or os.path.getsize(live) >= 1 and sum(1 for _ in open(live)) >= target:
                break
        except OSError:
            pass
        done, st = os.waitpid(pid, os.WNOHANG)
        if done:                      # the run finished first (target beyond its last statement)
            break
        time.sleep(0.0005)
    else:
        done = 0
    if not done:
        time.sleep(delay[1])
        try:
            os.kill(pid, signal.SIGKILL)
        except ProcessLookupError:
            pass
        _, st = os.waitpid(pid, 0)
    killed = os.WIFSIGNALED(st)
    if not killed and os.WEXITSTATUS(st) != 0:
        raise MachineryError('kill child ended with %r' % (st,))
    try:
        lines = [ln.split() for ln in open(os.path.join(workdir, 'live.log')) if ln.endswith('\n') and len(ln.split()) == 3]
    except OSError:
        lines = []
    # callbacks entered per file; only the very last statement begun may or may not have been executed
    begun = {}
    for ln in lines:
        begun[ln[0]] = int(ln[1])
    last = lines[-1][0] if lines else None
    res = {'delay': delay, 'killed': killed, 'n': len(lines), 'files': {}}
    for lab in _labels(run):
        n = begun.get(lab, 0)
        if not killed:
            j0 = j1 = len(ref['stream'][lab])
            if n != j0:
                raise MachineryError('completed kill-run logged %d statements for %s, reference %d' % (n, lab, j0))
        else:
            j1 = n
            j0 = max(n - 1, 0) if lab == last else n
        obs = [ref['hist'][lab][j0], ref['hist'][lab][j1]]
        got = read_file(os.path.join(workdir, lab + '.sql'))
        bucket, clause, detail = judge_file(ref['read'][lab], obs, got)
        res['files'][lab] = {'obs': obs, 'bucket': bucket, 'clause': clause, 'detail': detail}
    return res


def _kill_worker(job):
    quiet()
    name, delays, base = job
    run, ref = _REF[name]['run'], _REF[name]
    out = []
    for i, d in delays:
        wd = os.path.join(base, '%s-kill%d' % (name, i))
        try:
            out.append(kill_point(run, ref, d, wd))
        except MachineryError as e:
            out.append({'delay': d, 'machinery': str(e)})
        _rm(wd)
    return name, out


# ------------------------------------------------------------------------------------------------------------
def reference(run, base):
    """Uncrashed run in a child with the logging proxy: statement stream + what CaseReader reads."""
    wd = os.path.join(base, 'ref-' + run['name'])
    t0 = time.time()
    pid = spawn(run, wd, None, log_live=True)
    wait(pid, wd, (0,))
    dur = time.time() - t0
    with open(os.path.join(wd, 'events.json')) as f:
        ev = json.load(f)
    times = [float(line.split()[2]) for line in open(os.path.join(wd, 'live.log'))]
    ref = {'run': run, 'events': ev, 'stream': {lab: per_file(ev, lab) for lab in _labels(run)}, 'read': {}, 'dur': dur, 't_first': times[0] - t0 if times else dur,
           't_last': times[-1] - t0 if times else dur}
    for e in ev:
        if e['op'] == 'OTHER' or e['rt'] == 'unparsed':
            raise MachineryError('statement the harness cannot express: %r in run %s' % (e, run['name']))
    for lab in _labels(run):
        r = read_file(os.path.join(wd, lab + '.sql'))
        if not r['open'] or 'read_error' in r:
            raise MachineryError('reference file of run %s does not read: %r' % (run['name'], r))
        if len(set(r['list'])) != len(r['list']):
            raise MachineryError('reference run %s has duplicate case names' % run['name'])
        ref['read'][lab] = r
    return ref


SNIPPET = '''# stand-alone reproduction (no TLC): dies before statement %(j)d of file "%(lab)s" and reads the files back
PYTHONPATH=/verif/harness OPENMDAO_REPORTS=0 /venv/bin/python -m vf.drivers.c18 '%(run)s' '%(lab)s' %(j)d
'''


def validate_streams(ctx, refs):
    """V: CaseDBTrace.tla judges every observed per-file statement stream; returns nothing, fills ref['hist']."""
    traces, index = [], []
    for ref in refs:
        for lab in _labels(ref['run']):
            ev = ref['stream'][lab]
            lst = ref['read'][lab]
            # reference order by table, from the reader's own list: the k-th listed case is the k-th global row
            tables = [t for t, _ in lst['glob']]
            if len(tables) != len(lst['list']):
                raise MachineryError('reference of %s: %d global rows, %d listed cases' % (ref['run']['name'], len(tables), len(lst['list'])))
            traces.append({'ev': ev, 'ref': tables})
            index.append((ref, lab))
    path = ctx.write_json('c18_traces.json', traces)
    cfg = ctx.write_cfg('CaseDBTrace.cfg', 'CONSTANTS\n  Scripts = {}\n  Broken = FALSE\nINIT TInit\nNEXT TNext\n'
                        'INVARIANT TraceAtomicity\nINVARIANT TraceStartedOpens\nINVARIANT TraceCommitted\nINVARIANT Export\n')
    r = ctx.tlc_check('mech/CaseDBTrace', cfg, count=False, env={'C18_TRACES': path}, timeout=900, coverage=False, workers=1)
    v = {e['tid']: e for e in r.exports('EXP')}
    if len(v) != len(traces):
        raise MachineryError('trace verdicts missing: %d of %d' % (len(v), len(traces)))
    nev = 0
    for i, (ref, lab) in enumerate(index):
        e = v[i + 1]
        ev = traces[i]['ev']
        nev += len(ev)
        if e['v'] == 'stuck-sqlite-would-raise':
            raise MachineryError('CaseDBTrace cannot follow the stream SQLite executed (run %s, file %s, statement %d: %r)'
                                 % (ref['run']['name'], lab, e['l'] - 1, ev[e['l'] - 2]))
        if len(e['hist']) != len(ev) + 1:
            raise MachineryError('observation history has %d entries for %d statements' % (len(e['hist']), len(ev)))
        ref.setdefault('hist', {})[lab] = e['hist']
        ref.setdefault('verdict', {})[lab] = e['v']
        if e['v'] != 'accepted':
            at = e['at']
            ctx.violation({'run': ref['run'], 'file': lab, 'statement_number': at,
                           'statements_before': ev[max(0, at - 6):at - 1] if at else ev[-6:]},
                          'statement stream accepted by CaseDBTrace.tla (every case row and its global_iterations row in one '
                          'BEGIN..COMMIT, the reader\'s case order = commit order)',
                          {'verdict': e['v'], 'statement': ev[at - 1] if at else 'end of stream'},
                          'observed statement stream leaves the transaction structure of CaseDB: %s' % e['v'],
                          info={'kind': 'stream', 'verdict': e['v']})
    return len(traces), nev


def tlc_part(ctx, quick):
    head = 'CONSTANTS\n  Scripts <- %s\n  Broken = %s\nINIT Init\nNEXT Next\n'
    cfg = ctx.write_cfg('CaseDBMC.cfg', head % ('AllScripts', 'FALSE') +
                        'INVARIANT Executable\nINVARIANT Atomicity\nINVARIANT CrashPrefix\nINVARIANT CompleteRun\n'
                        'INVARIANT StartedOpens\n')
    r = ctx.tlc_check('mech/CaseDBMC', cfg, timeout=1500, workers=TLC_WORKERS)
    ctx.require_actions(['CreateTables', 'Begin', 'InsertMetaStub', 'UpdateMeta', 'InsertMetaRow', 'InsertCase',
                         'InsertGlobal', 'InsertDeriv', 'Commit', 'Rollback', 'Crash', 'Open'])
    ctx.extra['tlc_casedb'] = {'distinct_states': r.distinct, 'generated': r.generated, 'depth': r.depth}
    # non-vacuity: TLC must refute the broken variant and the two pre-startup non-theorems
    expect = [('broken', 'SmallScripts', 'TRUE', ['Atomicity', 'CrashPrefix'], 'INVARIANT Executable\nINVARIANT Atomicity\n'),
              ('broken-crashprefix', 'SmallScripts', 'TRUE', ['CrashPrefix'], 'INVARIANT Executable\nINVARIANT CrashPrefix\n'),
              ('pre-startup', 'SmallScripts', 'FALSE', ['PreStartupOpens'], 'INVARIANT PreStartupOpens\n'),
              ('stub-window', 'SmallScripts', 'FALSE', ['StubWindowOpens'], 'INVARIANT StubWindowOpens\n')]
    if quick:       # quick: the crash property on the broken variant + the narrow pre-startup window
        expect = [expect[1], expect[3]]
    refuted = {}
    for name, scripts, broken, invs, body in expect:
        cfg = ctx.write_cfg('CaseDBMC_%s.cfg' % name, head % (scripts, broken) + body)
        x = ctx.tlc_run('mech/CaseDBMC', cfg, timeout=600, workers=1)
        hit = [i for i in x.violated if i in invs]
        if not hit or any(i == 'Executable' for i in x.violated):
            raise MachineryError('TLC did not refute %s in the %s variant (vacuous spec?):\n%s' % (invs, name, x.tail(30)))
        refuted[name] = hit[0]
    ctx.extra['tlc_expected_refutations'] = refuted


def run(ctx):
    import openmdao.api  # noqa: F401  imported BEFORE forking so that children start in milliseconds
    quiet()
    ctx.level = 'fault_enumeration'
    quick = ctx.tier == 'quick'
    rng = random.Random(1800 + ctx.seed)
    base = os.path.join(ctx.work, 'runs')
    os.makedirs(base, exist_ok=True)

    if getattr(ctx, 'replay', None):
        with open(ctx.replay) as f:
            sc = json.load(f)['scenario']
        runs, only_at = [sc['run']], sc.get('at')
    else:
        runs, only_at = (quick_runs() if quick else thorough_runs(rng)), None

    # (a) the design
    tlc_part(ctx, quick)

    # warm the parent (lazy imports, scipy) with one plain, unpatched recording so that forked children start fast
    os.makedirs(os.path.join(base, 'warm'))
    import contextlib
    import io
    with contextlib.redirect_stdout(io.StringIO()):
        build_and_run(mkrun('warm', 'scipy', 1), os.path.join(base, 'warm'))
    _rm(os.path.join(base, 'warm'))
    # everything imported so far is shared copy-on-write with the children: keep the cyclic GC from touching (and so
    # copying) those pages in every child (SqliteRecorder.shutdown calls gc.collect())
    import gc
    gc.collect()
    gc.freeze()

    # (b) reference runs (uncrashed, in children) + validation of their statement streams
    refs = [reference(r, base) for r in runs]
    ntr, nev = validate_streams(ctx, refs)
    ctx.extra['streams_validated'] = ntr
    ctx.extra['statements_validated'] = nev
    usable = refs
    for ref in usable:
        _REF[ref['run']['name']] = ref

    # (c) crash enumeration: every statement boundary of every file (before statement 1..N_file), and the end of the
    # run (after the last statement, before shutdown)
    jobs = []
    for ref in usable:
        ats = []
        for lab in _labels(ref['run']):
            h = ref['hist'][lab]
            first = 1
            if ref['run'].get('scope') == 'cases':     # quick tier, second run: from just before the first case transaction
                rec = [i + 1 for i, e in enumerate(ref['stream'][lab])
                       if e['op'] == 'INSERT' and (e['t'] in RT2TABLE.values() or e['t'] == 'driver_derivatives')]
                first = max(1, min(rec or [1]) - 3)
            ats += [[lab, j] for j in range(first, len(ref['stream'][lab]) + 1)]
        ats.append(['', 0])
        if only_at:
            ats = [only_at]
        jobs += [(ref['run']['name'], c, base) for c in split(ats, max(1, min(PAR * 2, len(ats) // 4 or 1))) if c]
    rng.shuffle(jobs)
    t0 = time.time()
    results = pmap(_points_worker, jobs, nproc=PAR)
    ctx.extra['crash_enumeration_wall_s'] = round(time.time() - t0, 1)
    points = 0
    stats = {'pre-startup-fails': 0, 'pre-startup-opens': 0, 'post': 0, 'inside_transaction': 0, 'between_case_and_global': 0,
             'listed_before_own_derivatives_row': 0}
    torn_examples = []
    per_run = {}
    for name, out in results:
        ref = _REF[name]
        pr = per_run.setdefault(name, {'statements': {l: len(ref['stream'][l]) for l in ref['stream']}, 'crash_points': 0,
                                       'file_states_post_startup': 0, 'file_states_pre_startup_fail_to_open': 0,
                                       'cases_complete_run': {l: len(ref['read'][l]['list']) for l in ref['read']},
                                       'prefix_lengths_seen': set()})
        for res in out:
            if 'machinery' in res:
                raise MachineryError(res['machinery'])
            points += 1
            pr['crash_points'] += 1
            for lab, fr in res['files'].items():
                if fr['bucket'] == 'post+torn-derivs':
                    fr['bucket'] = 'post'
                    stats['listed_before_own_derivatives_row'] += 1
                    torn_examples.append({'run': name, 'file': lab, 'before_statement': fr['j']})
                stats[fr['bucket']] += 1
                if fr['bucket'] == 'post':
                    pr['file_states_post_startup'] += 1
                    if fr['ncases'] is not None:
                        pr['prefix_lengths_seen'].add(fr['ncases'])
                    if fr['obs']['mark'] >= 1:
                        key = '%s/%s/before-statement-%d' % (name, lab, fr['j'])
                        if key not in ctx.nontrivial:
                            stats['inside_transaction'] += 1
                            stats['between_case_and_global'] += fr['obs']['mark'] == 2
                        ctx.note_nontrivial(key)
                elif fr['bucket'] == 'pre-startup-fails':
                    pr['file_states_pre_startup_fail_to_open'] += 1
                if fr['clause']:
                    stream = ref['stream'][lab]
                    ctx.violation({'run': ref['run'], 'at': res['at'], 'file': lab, 'file_boundary': fr['j'],
                                   'next_statement_of_file': stream[fr['j'] - 1] if fr['j'] <= len(stream) else 'end of run',
                                   'previous_statements_of_file': stream[max(0, fr['j'] - 4):fr['j'] - 1]},
                                  {'spec_observation_at_boundary': fr['obs'],
                                   'prefix_of': ref['read'][lab]['list']},
                                  fr['detail'], fr['clause'],
                                  snippet=SNIPPET % {'lab': res['at'][0], 'j': res['at'][1], 'run': json.dumps(ref['run'])},
                                  info={'kind': 'crash', 'clause': fr['clause'], 'obs': fr['obs']})
    for pr in per_run.values():
        pr['prefix_lengths_seen'] = sorted(pr['prefix_lengths_seen'])

    # thorough: SIGKILL at random wall-clock times
    kills = {'n': 0, 'killed_mid_run': 0, 'finished_before_kill': 0, 'pre_startup': 0, 'post_startup': 0}
    if not quick and not only_at:
        kjobs = []
        nk = 0
        for ref in usable:
            delays = [(nk + i, (rng.uniform(0, 1.02), rng.choice([0, 0, rng.uniform(0, .004), rng.uniform(0, .05)])))
                      for i in range(24)]
            nk += 24
            kjobs += [(ref['run']['name'], c, base) for c in split(delays, 6) if c]
        for name, out in pmap(_kill_worker, kjobs, nproc=max(2, PAR // 2)):
            ref = _REF[name]
            for res in out:
                if 'machinery' in res:
                    raise MachineryError(res['machinery'])
                kills['n'] += 1
                points += 1
                kills['killed_mid_run' if res['killed'] else 'finished_before_kill'] += 1
                for lab, fr in res['files'].items():
                    kills['post_startup' if fr['bucket'].startswith('post') else 'pre_startup'] += 1
                    if fr['bucket'].startswith('post') and any(o['mark'] >= 1 for o in fr['obs']):
                        ctx.note_nontrivial('%s/%s/kill@%d' % (name, lab, res['n']))
                    if fr['clause']:
                        ctx.violation({'run': ref['run'], 'sigkill_at_fraction_plus_s': res['delay'], 'statements_begun': res['n'], 'file': lab},
                                      {'spec_observations_admissible': fr['obs'], 'prefix_of': ref['read'][lab]['list']},
                                      fr['detail'], fr['clause'] + ' (SIGKILL at a random time)',
                                      info={'kind': 'kill', 'clause': fr['clause']})
        ctx.extra['sigkill'] = kills

    ctx.impl = points
    ctx.evaluations = points
    ctx.exhaustive = True
    ctx.extra['crash_points'] = stats
    ctx.extra['runs'] = per_run
    ctx.extra['pre_startup_window'] = (
        '%d (file, boundary) pairs before the first completed startup leave a file CaseReader cannot open '
        '(no file yet, tables missing, or the metadata row still NULL); %d open. Not counted as violations: the property '
        'is read as "after the first startup completed".' % (stats['pre-startup-fails'], stats['pre-startup-opens']))
    if stats['listed_before_own_derivatives_row']:
        ctx.extra['derivatives_window'] = (
            '%d (file, boundary) pairs (e.g. %r): the last driver case is listed and complete except that its derivatives are '
            'None, because Driver.record_derivatives writes the driver_derivatives row in a later transaction of its own '
            '(after the case with DOEDriver). The row is a separate record of the file (no global_iterations row); the '
            'records present are still exactly the committed ones. Counted, not judged as a violation.'
            % (stats['listed_before_own_derivatives_row'], torn_examples[:2]))
    for ref in usable[:2]:
        lab = _labels(ref['run'])[0]
        h = ref['hist'][lab]
        ks = [i + 1 for i, o in enumerate(h) if o['mark'] == 2][:1]
        ctx.sample({'run': ref['run'], 'statements': len(ref['events']), 'complete_case_list': ref['read'][lab]['list'],
                    'example_boundary_between_case_row_and_global_row': ks,
                    'spec_observation_there': h[ks[0] - 1] if ks else None})
    ctx.rule = ('for each recorded run (coupled ExecComp model with NLBGS/Newton; recorders on problem, driver, a group and its '
                'solver in the attachment/file-sharing/option combinations of the tier; DOEDriver, ScipyOptimizeDriver or '
                'run_model sequences) a child process is killed (os._exit) immediately before EVERY statement the recorder '
                'connections execute (1..N, and N+1 = before shutdown)%s; the file is opened with CaseReader and compared with '
                'the complete run and with CaseDBTrace\'s observation for that boundary; non-trivial = distinct '
                '(run, file, boundary) after the first startup that fall inside an open transaction (BEGIN executed, COMMIT '
                'not), including between a case row and its global_iterations row'
                % ('' if quick else '; plus 24 SIGKILLs per run at random wall-clock times'))
    ctx.assumptions = [
        "SQLite's atomic commit and rollback-journal recovery are trusted (CaseDB.Commit is one step); the crash is a "
        "process death (os._exit / SIGKILL), not a power loss: the OS keeps written pages",
        '"after the recorder started" = after the first completed SqliteRecorder.startup (first UPDATE metadata committed); '
        'earlier boundaries are exercised and counted in pre_startup_window, not judged',
        'statement boundaries are those SQLite reports through the trace callback of the recorder connection (incl. implicit '
        'BEGIN and COMMIT); a death inside a single statement is covered by the SIGKILL runs only',
        'serial runs (no MPI): one file holds cases and metadata',
        'equality of cases: name, source, counter, success, msg, abs/rel error, inputs, outputs, residuals (timestamps '
        'excluded); derivatives of a driver case are a separate record (driver_derivatives row, own transaction): equal to the '
        'complete run\'s, or None exactly when that row is not yet durable',
    ]


if __name__ == '__main__':
    # stand-alone reproduction of one crash point
    import shutil
    import tempfile
    run_ = json.loads(sys.argv[1])
    at_ = [sys.argv[2], int(sys.argv[3])]
    import openmdao.api  # noqa: F401
    quiet()
    d = tempfile.mkdtemp(prefix='c18-', dir=os.environ.get('OPENMDAO_WORKDIR') or None)
    try:
        wait(spawn(run_, os.path.join(d, 'ref'), None), os.path.join(d, 'ref'), (0,))
        wait(spawn(run_, os.path.join(d, 'crash'), at_), os.path.join(d, 'crash'), (9,))
        ev_ = json.load(open(os.path.join(d, 'crash', 'events.json')))
        print('statements executed before the crash: %d; last: %r' % (len(ev_), ev_[-3:]))
        for lab_ in _labels(run_):
            a_ = read_file(os.path.join(d, 'ref', lab_ + '.sql'), with_cases=False)
            b_ = read_file(os.path.join(d, 'crash', lab_ + '.sql'), with_cases=False)
            print('file %s: complete run lists %d cases' % (lab_, len(a_['list'])))
            print('  crashed: open=%s %s' % (b_['open'], b_.get('error', '')))
            if b_['open']:
                print('  list_cases(): %r' % (b_.get('list'),))
                print('  by source   : %r' % (b_.get('by_source'),))
                print('  case rows   : %r' % (b_.get('rows'),))
                print('  global rows : %r' % (b_.get('glob'),))
                print('  prefix: %s' % (b_.get('list') == a_['list'][:len(b_.get('list', []))]))
    finally:
        shutil.rmtree(d, ignore_errors=True)
