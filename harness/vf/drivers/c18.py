"""C18 - case recordings survive a crash at any point as a consistent prefix.

Spec: spec/mech/CaseDB.tla (+ CaseDBMC.tla, CaseDBTrace.tla).  The SQLite file is `durable` (committed rows) + `txn`
(uncommitted buffer); `Crash` is enabled in every state.

(a) TLC checks CrashPrefix / Atomicity / CompleteRun / StartedOpens / Executable exhaustively over every bounded
    recorded run; the deliberately broken variant (Broken = TRUE: COMMIT between a case row and its global row) and the
    two pre-startup non-theorems must be REFUTED by TLC (non-vacuity).
(b) V: the statement stream of real recordings (sqlite3 trace callback on the recorder's connection, installed in a
    child process by replacing the name `sqlite3` inside openmdao.recorders.sqlite_recorder) is replayed through the
    statement operators of CaseDB by CaseDBTrace.tla, which also says for every statement boundary whether the first
    startup is complete, whether a transaction is open and how many cases are durable.
(c) K: for EVERY statement boundary k of a run a forked child repeats the recording and dies (os._exit(9)) immediately
    before statement k; the parent opens the file with om.CaseReader and compares with the uncrashed reference and
    with what the spec says for that boundary.  Thorough adds more runs and SIGKILL at random wall-clock times.

Stand-alone reproduction of one crash point (no TLC):
    PYTHONPATH=/verif/harness /venv/bin/python -m vf.drivers.c18 '<run spec as json>' <k>
"""
import json
import os
import random
import signal
import sys
import time
import traceback

from ..tlc import MachineryError
from ..util import pmap, quiet, split

PAR = int(os.environ.get('VERIF_C18_PAR', '16'))
TLC_WORKERS = int(os.environ.get('VERIF_C18_TLC_WORKERS', '4'))

RT2TABLE = {'driver': 'driver_iterations', 'system': 'system_iterations', 'solver': 'solver_iterations',
            'problem': 'problem_cases'}
REQ = ('problem', 'driver', 'system', 'solver')


# ------------------------------------------------------------------------------------------------------------
# the recorded runs
# ------------------------------------------------------------------------------------------------------------
def mkrun(name, driver='doe', ncases=2, files=None, maxiter=3, solver='nlbgs', opts=None, final=True):
    """files: requester -> file label (same label = same SqliteRecorder object)."""
    files = files if files is not None else {r: 'a' for r in REQ}
    return {'name': name, 'driver': driver, 'ncases': ncases, 'files': files, 'maxiter': maxiter, 'solver': solver,
            'opts': opts or {}, 'final': final}


def quick_runs():
    return [
        # every requester on one file, DOE with 2 cases, 3 solver iterations per case, a final problem case
        mkrun('doe-all-onefile', 'doe', 2),
        # optimizer run with derivative rows (driver_derivatives has no global row), driver + problem on separate files
        mkrun('slsqp-driver-problem-twofiles', 'scipy', 2, {'driver': 'a', 'problem': 'b'},
              opts={'driver': {'record_derivatives': True, 'record_inputs': True}}),
    ]


def thorough_runs(rng):
    runs = list(quick_runs())
    runs += [
        mkrun('doe-solver-only', 'doe', 3, {'solver': 'a'}),
        mkrun('doe-system-only', 'doe', 3, {'system': 'a'}, opts={'system': {'record_residuals': False}}),
        mkrun('doe-driver-only-derivs', 'doe', 3, {'driver': 'a'},
              opts={'driver': {'record_derivatives': True, 'record_residuals': True, 'record_inputs': True}}),
        mkrun('model-problem-only', 'model', 3, {'problem': 'a'}, opts={'problem': {'record_derivatives': True}}),
        mkrun('model-system-solver', 'model', 2, {'system': 'a', 'solver': 'a'}, maxiter=4),
        mkrun('doe-four-files', 'doe', 2, {'problem': 'a', 'driver': 'b', 'system': 'c', 'solver': 'd'}),
        mkrun('newton-linesearch', 'doe', 2, {'driver': 'a', 'solver': 'a', 'linesearch': 'a'}, solver='newton', maxiter=2),
        mkrun('slsqp-all-onefile', 'scipy', 3, None, maxiter=2,
              opts={'driver': {'record_derivatives': True}, 'solver': {'record_abs_error': False, 'record_inputs': True}}),
        mkrun('doe-nofinal-sys-drv', 'doe', 4, {'driver': 'a', 'system': 'b'}, maxiter=1, final=False,
              opts={'driver': {'includes': ['y1'], 'record_objectives': False}}),
        mkrun('doe-10-cases', 'doe', 10, {'driver': 'a', 'solver': 'a'}, maxiter=2),   # counters / ids pass 9 -> 10
    ]
    # a few random attachment / file-sharing / option combinations
    for i in range(4):
        att = [r for r in REQ if rng.random() < .6] or ['driver']
        labels = 'ab' if rng.random() < .5 else 'a'
        files = {r: rng.choice(labels) for r in att}
        opts = {r: {'record_inputs': rng.random() < .5, 'record_residuals': rng.random() < .5}
                for r in att if r in ('system', 'driver', 'problem')}
        runs.append(mkrun('random-%d' % i, rng.choice(['doe', 'scipy', 'model']), rng.randrange(1, 4), files,
                          maxiter=rng.randrange(1, 4), opts=opts, final=rng.random() < .5))
    return runs


def build_and_run(run, workdir, before_cleanup=None):
    """Build the coupled model of `run`, attach the recorders, run it.  Files are <workdir>/<label>.sql."""
    import openmdao.api as om
    p = om.Problem(name='c18_%s' % run['name'].replace('-', '_'))
    m = p.model
    m.add_subsystem('ivc', om.IndepVarComp('x', 1.0), promotes=['*'])
    cyc = m.add_subsystem('cycle', om.Group(), promotes=['*'])
    cyc.add_subsystem('d1', om.ExecComp('y1 = 0.5*y2 + x'), promotes=['*'])
    cyc.add_subsystem('d2', om.ExecComp('y2 = 0.25*y1 + 1'), promotes=['*'])
    if run['solver'] == 'newton':
        cyc.nonlinear_solver = om.NewtonSolver(solve_subsystems=False, maxiter=run['maxiter'], iprint=-1,
                                               err_on_non_converge=False, atol=1e-30, rtol=1e-30)
        cyc.nonlinear_solver.linesearch = om.ArmijoGoldsteinLS(maxiter=2, iprint=-1)
        cyc.linear_solver = om.DirectSolver()
    else:
        cyc.nonlinear_solver = om.NonlinearBlockGS(maxiter=run['maxiter'], iprint=-1, err_on_non_converge=False,
                                                   atol=1e-30, rtol=1e-30)
    m.add_subsystem('obj', om.ExecComp('f = (y1 - 3)**2 + y2'), promotes=['*'])
    m.add_subsystem('con', om.ExecComp('g = y1 + y2'), promotes=['*'])
    m.add_design_var('x', lower=0, upper=10)
    m.add_objective('f')
    m.add_constraint('g', upper=20.)
    if run['driver'] == 'doe':
        p.driver = om.DOEDriver(om.ListGenerator([[('x', 1.0 + i)] for i in range(run['ncases'])]))
    elif run['driver'] == 'scipy':
        p.driver = om.ScipyOptimizeDriver(optimizer='SLSQP', maxiter=run['ncases'], disp=False)
    recs = {}
    target = {'problem': p, 'driver': p.driver, 'system': cyc, 'solver': cyc.nonlinear_solver}
    if run['solver'] == 'newton':
        target['linesearch'] = cyc.nonlinear_solver.linesearch
    for req, label in sorted(run['files'].items()):
        if label not in recs:
            recs[label] = om.SqliteRecorder(os.path.join(workdir, label + '.sql'))
        target[req].add_recorder(recs[label])
        for k, v in run['opts'].get(req, {}).items():
            target[req].recording_options[k] = v
    p.setup()
    if run['driver'] == 'model':
        for i in range(run['ncases']):
            p.set_val('x', 1.0 + i)
            p.run_model()
            if 'problem' in run['files']:
                p.record('run%d' % i)
    else:
        p.run_driver()
    if run['final'] and 'problem' in run['files']:
        p.record('final')
    if before_cleanup:
        before_cleanup()
    p.cleanup()


# ------------------------------------------------------------------------------------------------------------
# the sqlite3 proxy (child processes only)
# ------------------------------------------------------------------------------------------------------------
def abstract(stmt):
    s = stmt.lstrip()
    w = s.split(None, 3)
    head = w[0].upper() if w else ''
    if head == 'BEGIN':
        return {'op': 'BEGIN', 't': '', 'rt': ''}
    if head == 'COMMIT':
        return {'op': 'COMMIT', 't': '', 'rt': ''}
    if head == 'CREATE' and len(w) >= 3:
        return {'op': 'CREATE', 't': w[2].split('(')[0], 'rt': ''}
    if head == 'INSERT' and len(w) >= 3:
        t = w[2].split('(')[0]
        rt = ''
        if t == 'global_iterations':
            i = s.find('VALUES(')
            val = s[i + 7:i + 20]
            for k, v in RT2TABLE.items():
                if val.startswith("'%s'" % k):
                    rt = v
            if not rt:
                rt = 'unparsed'
        return {'op': 'INSERT', 't': t, 'rt': rt}
    if head == 'UPDATE' and len(w) >= 2:
        return {'op': 'UPDATE', 't': w[1], 'rt': ''}
    return {'op': 'OTHER', 't': head, 'rt': ''}


def install_proxy(on_stmt):
    """Replace the name `sqlite3` inside openmdao.recorders.sqlite_recorder by a module object whose connect()
    returns connections that report every statement (incl. implicit BEGIN / COMMIT) to on_stmt(label, sql)
    immediately BEFORE the statement is executed."""
    import sqlite3
    import types
    import openmdao.recorders.sqlite_recorder as sr

    class Conn(sqlite3.Connection):
        def __init__(self, database, *a, **kw):
            super().__init__(database, *a, **kw)
            label = os.path.splitext(os.path.basename(str(database)))[0]
            self.set_trace_callback(lambda sql: on_stmt(label, sql))

    proxy = types.ModuleType('sqlite3')
    proxy.__dict__.update({k: v for k, v in sqlite3.__dict__.items() if not k.startswith('__')})

    def connect(database, *a, **kw):
        kw.setdefault('factory', Conn)
        return sqlite3.connect(database, *a, **kw)
    proxy.connect = connect
    sr.sqlite3 = proxy


def child_main(run, workdir, k=0, log_live=False):
    """Body of a child process: record `run` into workdir; die before statement k (k = 0: never; k > N: after the
    last statement, before the recorder is shut down).  Never returns."""
    code = 3
    try:
        sys.stdout.flush()
        sys.stderr.flush()
        dn = os.open(os.devnull, os.O_WRONLY)
        os.dup2(dn, 1)
        os.dup2(dn, 2)
        quiet()
        os.makedirs(workdir, exist_ok=True)
        os.environ['OPENMDAO_WORKDIR'] = workdir
        events = []
        live = os.open(os.path.join(workdir, 'live.log'), os.O_WRONLY | os.O_CREAT | os.O_APPEND) if log_live else None

        def die():
            with open(os.path.join(workdir, 'events.json'), 'w') as f:
                json.dump(events, f)
                f.flush()
                os.fsync(f.fileno())
            os._exit(9)

        def on_stmt(label, sql):
            if k and len(events) + 1 == k:
                die()
            e = abstract(sql)
            e['f'] = label
            events.append(e)
            if live is not None:
                os.write(live, b'%d %.6f\n' % (len(events), time.time()))

        install_proxy(on_stmt)
        build_and_run(run, workdir, before_cleanup=die if k else None)
        with open(os.path.join(workdir, 'events.json'), 'w') as f:
            json.dump(events, f)
        code = 0
    except BaseException:
        try:
            with open(os.path.join(workdir, 'child_error.txt'), 'w') as f:
                f.write(traceback.format_exc())
        except Exception:
            pass
    finally:
        os._exit(code)


def spawn(run, workdir, k=0, log_live=False):
    sys.stdout.flush()
    pid = os.fork()
    if pid == 0:
        child_main(run, workdir, k, log_live)
    return pid


def wait(pid, workdir, expect):
    _, st = os.waitpid(pid, 0)
    code = os.WEXITSTATUS(st) if os.WIFEXITED(st) else -os.WTERMSIG(st)
    if code not in expect:
        err = ''
        try:
            err = open(os.path.join(workdir, 'child_error.txt')).read()
        except OSError:
            pass
        raise MachineryError('child in %s ended with %r (expected %r)\n%s' % (workdir, code, expect, err[-2000:]))
    return code


# ------------------------------------------------------------------------------------------------------------
# reading a file back
# ------------------------------------------------------------------------------------------------------------
def _vals(d):
    import numpy as np
    if d is None:
        return None
    return {str(n): np.asarray(d[n]).tolist() for n in d.keys()}


def case_data(c):
    return {'name': c.name, 'source': c.source, 'counter': c.counter, 'success': c.success, 'msg': c.msg,
            'abs_err': c.abs_err, 'rel_err': c.rel_err, 'inputs': _vals(c.inputs), 'outputs': _vals(c.outputs),
            'residuals': _vals(c.residuals),
            'derivatives': None if c.derivatives is None else
            {'%s,%s' % tuple(key): __import__('numpy').asarray(c.derivatives[key]).tolist() for key in c.derivatives.keys()}}


def raw_rows(path):
    """Committed rows straight from the file: {table: [ids]}, [(record_type, rowid)]."""
    import sqlite3
    con = sqlite3.connect('file:%s?mode=ro' % path, uri=True)
    try:
        have = {r[0] for r in con.execute("SELECT name FROM sqlite_master WHERE type='table'")}
        rows = {t: [r[0] for r in con.execute('SELECT id FROM %s ORDER BY id' % t)] for t in RT2TABLE.values() if t in have}
        glob = [(RT2TABLE.get(r[0], r[0]), r[1]) for r in con.execute('SELECT record_type, rowid FROM global_iterations ORDER BY id')] \
            if 'global_iterations' in have else []
    finally:
        con.close()
    return rows, glob


def read_file(path, with_cases=True):
    """-> {'open': True, 'list': [...], 'cases': {name: data}, 'by_source': {...}} or {'open': False, 'error': ...}"""
    import openmdao.api as om
    if not os.path.exists(path):
        return {'open': False, 'error': 'no file'}
    try:
        cr = om.CaseReader(path)
    except Exception as e:
        return {'open': False, 'error': '%s: %s' % (type(e).__name__, str(e)[:200])}
    out = {'open': True}
    try:
        out['list'] = list(cr.list_cases(out_stream=None))
        out['sources'] = sorted(cr.list_sources(out_stream=None))
        out['by_source'] = {s: list(cr.list_cases(s, recurse=False, out_stream=None)) for s in out['sources']}
        if with_cases:
            out['cases'] = {n: case_data(cr.get_case(n)) for n in out['list']}
    except Exception as e:
        out['read_error'] = '%s: %s\n%s' % (type(e).__name__, str(e)[:200], traceback.format_exc()[-600:])
    try:
        out['rows'], out['glob'] = raw_rows(path)
    except Exception as e:
        out['read_error'] = out.get('read_error', '') + ' raw: %s: %s' % (type(e).__name__, e)
    return out


def same(a, b):
    """Equality of two case_data records (NaN-aware, exact otherwise)."""
    import numpy as np
    if isinstance(a, dict) and isinstance(b, dict):
        return a.keys() == b.keys() and all(same(a[k], b[k]) for k in a)
    if isinstance(a, (list, float, int)) and isinstance(b, (list, float, int)) and not isinstance(a, bool):
        try:
            return bool(np.array_equal(np.asarray(a, dtype=float), np.asarray(b, dtype=float), equal_nan=True))
        except (TypeError, ValueError):
            return a == b
    return a == b


# ------------------------------------------------------------------------------------------------------------
# judging one crashed file against the reference and the spec's statement-boundary observation
# ------------------------------------------------------------------------------------------------------------
def judge_file(ref, obs, got, exact=True):
    """ref: reference read of the complete file; obs: spec observation at the boundary [started, mark, ncases] (or a
    list of admissible observations for a kill at an unknown point between two boundaries); got: read of the crashed
    file.  Returns (bucket, clause or None, detail)."""
    obss = obs if isinstance(obs, list) else [obs]
    if not all(o['started'] for o in obss):
        return ('pre-startup-' + ('opens' if got['open'] else 'fails'), None, got.get('error'))
    if not got['open']:
        return ('post', 'file does not open with CaseReader after a crash that follows the first startup', got.get('error'))
    if 'read_error' in got:
        return ('post', 'listing / reading the cases of the crashed file raises', got['read_error'])
    lst, full = got['list'], ref['list']
    if lst != full[:len(lst)]:
        return ('post', 'list_cases() is not a prefix of the complete run', {'got': lst, 'full': full})
    if len(lst) not in [o['ncases'] for o in obss]:
        return ('post', 'the listed cases are not exactly the committed ones (spec: durable = committed transactions)',
                {'listed': len(lst), 'committed': [o['ncases'] for o in obss]})
    # per source listings agree with the global order
    for s, names in got['by_source'].items():
        want = [n for n in lst if n in set(ref['by_source'].get(s, []))]
        if names != want:
            return ('post', 'list_cases(source) disagrees with the global case order (a case row without its global row)',
                    {'source': s, 'got': names, 'want': want})
    if sorted(got['by_source']) != sorted(s for s in ref['by_source'] if any(n in lst for n in ref['by_source'][s])):
        return ('post', 'list_sources() names a source without a listed case', {'got': sorted(got['by_source'])})
    # rows: one global row per case row and vice versa
    rows, glob = got['rows'], got['glob']
    pairs = sorted((t, i) for t in rows for i in rows[t])
    if sorted(glob) != pairs or len(set(glob)) != len(glob):
        return ('post', 'case rows and global_iterations rows are not one-to-one', {'case_rows': pairs, 'global_rows': glob})
    for n in lst:
        if not same(got['cases'][n], ref['cases'][n]):
            return ('post', 'a listed case differs from the same case of the complete run',
                    {'case': n, 'got': got['cases'][n], 'ref': ref['cases'][n]})
    return ('post', None, None)


_REF = {}      # run name -> reference (set in the parent before the pool forks)


def _labels(run):
    return sorted(set(run['files'].values()))


def crash_point(run, ref, k, workdir):
    """Run the recording, die before statement k, judge every file.  -> result record."""
    pid = spawn(run, workdir, k)
    wait(pid, workdir, (9,))
    with open(os.path.join(workdir, 'events.json')) as f:
        ev = json.load(f)
    if ev != ref['events'][:k - 1]:
        raise MachineryError('run %s is not deterministic: statement stream before boundary %d differs from the reference'
                             % (run['name'], k))
    res = {'k': k, 'files': {}}
    for lab in _labels(run):
        j = sum(1 for e in ref['events'][:k - 1] if e['f'] == lab)        # statements of this file already executed
        obs = ref['hist'][lab][j]                                         # spec: state before this file's statement j+1
        got = read_file(os.path.join(workdir, lab + '.sql'))
        bucket, clause, detail = judge_file(ref['read'][lab], obs, got)
        res['files'][lab] = {'obs': obs, 'bucket': bucket, 'clause': clause, 'detail': detail,
                             'ncases': len(got.get('list', [])) if got['open'] else None}
    return res


def _points_worker(job):
    quiet()
    name, ks, base = job
    run, ref = _REF[name]['run'], _REF[name]
    out = []
    for k in ks:
        wd = os.path.join(base, '%s-k%d' % (name, k))
        try:
            out.append(crash_point(run, ref, k, wd))
        except MachineryError as e:
            out.append({'k': k, 'machinery': str(e)})
        _rm(wd)
    return name, out


def _rm(d):
    import shutil
    shutil.rmtree(d, ignore_errors=True)


def kill_point(run, ref, delay, workdir):
    """SIGKILL the recording child after `delay` seconds."""
    pid = spawn(run, workdir, 0, log_live=True)
    time.sleep(delay)
    try:
        os.kill(pid, signal.SIGKILL)
    except ProcessLookupError:
        pass
    _, st = os.waitpid(pid, 0)
    killed = os.WIFSIGNALED(st)
    if not killed and os.WEXITSTATUS(st) != 0:
        raise MachineryError('kill child ended with %r' % (st,))
    try:
        n = sum(1 for _ in open(os.path.join(workdir, 'live.log')))       # callbacks entered: statements 1..n-1 are done
    except OSError:
        n = 0
    res = {'delay': delay, 'killed': killed, 'n': n, 'files': {}}
    for lab in _labels(run):
        evs = ref['events']
        if not killed:
            j0 = j1 = sum(1 for e in evs if e['f'] == lab)
        else:
            j0 = sum(1 for e in evs[:max(n - 1, 0)] if e['f'] == lab)     # statement n itself may or may not have run
            j1 = sum(1 for e in evs[:n] if e['f'] == lab)
        obs = [ref['hist'][lab][j0], ref['hist'][lab][j1]]
        got = read_file(os.path.join(workdir, lab + '.sql'))
        bucket, clause, detail = judge_file(ref['read'][lab], obs, got)
        res['files'][lab] = {'obs': obs, 'bucket': bucket, 'clause': clause, 'detail': detail}
    return res


def _kill_worker(job):
    quiet()
    name, delays, base = job
    run, ref = _REF[name]['run'], _REF[name]
    out = []
    for i, d in delays:
        wd = os.path.join(base, '%s-kill%d' % (name, i))
        try:
            out.append(kill_point(run, ref, d, wd))
        except MachineryError as e:
            out.append({'delay': d, 'machinery': str(e)})
        _rm(wd)
    return name, out


# ------------------------------------------------------------------------------------------------------------
def reference(run, base):
    """Uncrashed run in a child with the logging proxy: statement stream + what CaseReader reads."""
    wd = os.path.join(base, 'ref-' + run['name'])
    t0 = time.time()
    pid = spawn(run, wd, 0, log_live=True)
    wait(pid, wd, (0,))
    dur = time.time() - t0
    with open(os.path.join(wd, 'events.json')) as f:
        ev = json.load(f)
    times = [float(line.split()[1]) for line in open(os.path.join(wd, 'live.log'))]
    ref = {'run': run, 'events': ev, 'read': {}, 'dur': dur, 't_first': times[0] - t0 if times else dur,
           't_last': times[-1] - t0 if times else dur}
    for e in ev:
        if e['op'] == 'OTHER' or e['rt'] == 'unparsed':
            raise MachineryError('statement the harness cannot express: %r in run %s' % (e, run['name']))
    for lab in _labels(run):
        r = read_file(os.path.join(wd, lab + '.sql'))
        if not r['open'] or 'read_error' in r:
            raise MachineryError('reference file of run %s does not read: %r' % (run['name'], r))
        if len(set(r['list'])) != len(r['list']):
            raise MachineryError('reference run %s has duplicate case names' % run['name'])
        ref['read'][lab] = r
    return ref


SNIPPET = '''# stand-alone reproduction (no TLC): dies before statement %(k)d of the recording and reads the file back
PYTHONPATH=/verif/harness OPENMDAO_REPORTS=0 /venv/bin/python -m vf.drivers.c18 '%(run)s' %(k)d
'''


def validate_streams(ctx, refs):
    """V: CaseDBTrace.tla judges every observed per-file statement stream; returns nothing, fills ref['hist']."""
    traces, index = [], []
    for ref in refs:
        for lab in _labels(ref['run']):
            ev = [{'op': e['op'], 't': e['t'], 'rt': e['rt']} for e in ref['events'] if e['f'] == lab]
            lst = ref['read'][lab]
            # reference order by table, from the reader's own list: the k-th listed case is the k-th global row
            tables = [t for t, _ in lst['glob']]
            if len(tables) != len(lst['list']):
                raise MachineryError('reference of %s: %d global rows, %d listed cases' % (ref['run']['name'], len(tables), len(lst['list'])))
            traces.append({'ev': ev, 'ref': tables})
            index.append((ref, lab))
    path = ctx.write_json('c18_traces.json', traces)
    cfg = ctx.write_cfg('CaseDBTrace.cfg', 'CONSTANTS\n  Scripts = {}\n  Broken = FALSE\nINIT TInit\nNEXT TNext\n'
                        'INVARIANT TraceAtomicity\nINVARIANT TraceStartedOpens\nINVARIANT TraceCommitted\nINVARIANT Export\n')
    r = ctx.tlc_check('mech/CaseDBTrace', cfg, count=False, env={'C18_TRACES': path}, timeout=900, coverage=False, workers=1)
    v = {e['tid']: e for e in r.exports('EXP')}
    if len(v) != len(traces):
        raise MachineryError('trace verdicts missing: %d of %d' % (len(v), len(traces)))
    nev = 0
    for i, (ref, lab) in enumerate(index):
        e = v[i + 1]
        ev = traces[i]['ev']
        nev += len(ev)
        if e['v'] != 'accepted':
            bad = ev[e['l'] - 2] if 2 <= e['l'] <= len(ev) + 1 else None
            ctx.violation({'run': ref['run'], 'file': lab, 'stream_prefix': ev[:e['l'] - 1][-12:]},
                          'statement stream accepted by CaseDBTrace.tla (every case row and its global_iterations row in one '
                          'BEGIN..COMMIT)', {'verdict': e['v'], 'statement': bad, 'position': e['l'] - 1},
                          'observed statement stream leaves the transaction structure of CaseDB: %s' % e['v'],
                          info={'kind': 'stream', 'verdict': e['v']})
            ref.setdefault('hist', {})[lab] = None
            continue
        if len(e['hist']) != len(ev) + 1:
            raise MachineryError('observation history has %d entries for %d statements' % (len(e['hist']), len(ev)))
        ref.setdefault('hist', {})[lab] = e['hist']
    return len(traces), nev


def tlc_part(ctx):
    head = 'CONSTANTS\n  Scripts <- %s\n  Broken = %s\nINIT Init\nNEXT Next\n'
    cfg = ctx.write_cfg('CaseDBMC.cfg', head % ('AllScripts', 'FALSE') +
                        'INVARIANT Executable\nINVARIANT Atomicity\nINVARIANT CrashPrefix\nINVARIANT CompleteRun\n'
                        'INVARIANT StartedOpens\n')
    r = ctx.tlc_check('mech/CaseDBMC', cfg, timeout=1500, workers=TLC_WORKERS)
    ctx.require_actions(['CreateTables', 'Begin', 'InsertMetaStub', 'UpdateMeta', 'InsertMetaRow', 'InsertCase',
                         'InsertGlobal', 'InsertDeriv', 'Commit', 'Crash', 'Open'])
    ctx.extra['tlc_casedb'] = {'distinct_states': r.distinct, 'generated': r.generated, 'depth': r.depth}
    # non-vacuity: TLC must refute the broken variant and the two pre-startup non-theorems
    expect = [('broken', 'SmallScripts', 'TRUE', ['Atomicity', 'CrashPrefix'], 'INVARIANT Executable\nINVARIANT Atomicity\n'),
              ('broken-crashprefix', 'SmallScripts', 'TRUE', ['CrashPrefix'], 'INVARIANT Executable\nINVARIANT CrashPrefix\n'),
              ('pre-startup', 'SmallScripts', 'FALSE', ['PreStartupOpens'], 'INVARIANT PreStartupOpens\n'),
              ('stub-window', 'SmallScripts', 'FALSE', ['StubWindowOpens'], 'INVARIANT StubWindowOpens\n')]
    refuted = {}
    for name, scripts, broken, invs, body in expect:
        cfg = ctx.write_cfg('CaseDBMC_%s.cfg' % name, head % (scripts, broken) + body)
        x = ctx.tlc_run('mech/CaseDBMC', cfg, timeout=600, workers=1)
        hit = [i for i in x.violated if i in invs]
        if not hit or any(i == 'Executable' for i in x.violated):
            raise MachineryError('TLC did not refute %s in the %s variant (vacuous spec?):\n%s' % (invs, name, x.tail(30)))
        refuted[name] = hit[0]
    ctx.extra['tlc_expected_refutations'] = refuted


def run(ctx):
    import openmdao.api  # noqa: F401  imported BEFORE forking so that children start in milliseconds
    quiet()
    ctx.level = 'fault_enumeration'
    quick = ctx.tier == 'quick'
    rng = random.Random(1800 + ctx.seed)
    base = os.path.join(ctx.work, 'runs')
    os.makedirs(base, exist_ok=True)

    if getattr(ctx, 'replay', None):
        with open(ctx.replay) as f:
            sc = json.load(f)['scenario']
        runs, only_k = [sc['run']], sc.get('k')
    else:
        runs, only_k = (quick_runs() if quick else thorough_runs(rng)), None

    # (a) the design
    tlc_part(ctx)

    # (b) reference runs (uncrashed, in children) + validation of their statement streams
    refs = [reference(r, base) for r in runs]
    ntr, nev = validate_streams(ctx, refs)
    ctx.extra['streams_validated'] = ntr
    ctx.extra['statements_validated'] = nev
    usable = [ref for ref in refs if all(ref['hist'][lab] is not None for lab in _labels(ref['run']))]
    for ref in usable:
        _REF[ref['run']['name']] = ref

    # (c) crash enumeration: every statement boundary 1..N and N+1 (after the last statement, before shutdown)
    jobs = []
    for ref in usable:
        n = len(ref['events'])
        ks = [only_k] if only_k else list(range(1, n + 2))
        jobs += [(ref['run']['name'], c, base) for c in split(ks, max(1, min(PAR * 2, len(ks) // 4 or 1))) if c]
    rng.shuffle(jobs)
    t0 = time.time()
    results = pmap(_points_worker, jobs, nproc=PAR)
    ctx.extra['crash_enumeration_wall_s'] = round(time.time() - t0, 1)
    points = 0
    stats = {'pre-startup-fails': 0, 'pre-startup-opens': 0, 'post': 0, 'inside_transaction': 0, 'between_case_and_global': 0}
    per_run = {}
    for name, out in results:
        ref = _REF[name]
        pr = per_run.setdefault(name, {'statements': len(ref['events']), 'crash_points': 0, 'post_startup': 0,
                                       'pre_startup_fail_to_open': 0, 'cases_complete_run': {l: len(ref['read'][l]['list']) for l in ref['read']},
                                       'prefix_lengths_seen': set()})
        for res in out:
            if 'machinery' in res:
                raise MachineryError(res['machinery'])
            points += 1
            pr['crash_points'] += 1
            for lab, fr in res['files'].items():
                stats[fr['bucket']] += 1
                if fr['bucket'] == 'post':
                    pr['post_startup'] += 1
                    if fr['ncases'] is not None:
                        pr['prefix_lengths_seen'].add(fr['ncases'])
                    if fr['obs']['mark'] >= 1:
                        stats['inside_transaction'] += 1
                        ctx.note_nontrivial('%s/%s/k=%d' % (name, lab, res['k']))
                    if fr['obs']['mark'] == 2:
                        stats['between_case_and_global'] += 1
                elif fr['bucket'] == 'pre-startup-fails':
                    pr['pre_startup_fail_to_open'] += 1
                if fr['clause']:
                    ctx.violation({'run': ref['run'], 'k': res['k'], 'file': lab,
                                   'statement': ref['events'][res['k'] - 1] if res['k'] <= len(ref['events']) else 'end of run'},
                                  {'spec_observation_at_boundary': fr['obs'],
                                   'prefix_of': ref['read'][lab]['list']},
                                  fr['detail'], fr['clause'],
                                  snippet=SNIPPET % {'k': res['k'], 'run': json.dumps(ref['run'])},
                                  info={'kind': 'crash', 'clause': fr['clause'], 'obs': fr['obs']})
    for pr in per_run.values():
        pr['prefix_lengths_seen'] = sorted(pr['prefix_lengths_seen'])

    # thorough: SIGKILL at random wall-clock times
    kills = {'n': 0, 'killed_mid_run': 0, 'finished_before_kill': 0, 'pre_startup': 0, 'post_startup': 0}
    if not quick and not only_k:
        kjobs = []
        nk = 0
        for ref in usable:
            lo, hi = 0.6 * ref['t_first'], 1.15 * max(ref['t_last'], ref['t_first'] + 0.01)
            delays = [(nk + i, rng.uniform(lo, hi)) for i in range(24)]
            nk += 24
            kjobs += [(ref['run']['name'], c, base) for c in split(delays, 6) if c]
        for name, out in pmap(_kill_worker, kjobs, nproc=max(2, PAR // 2)):
            ref = _REF[name]
            for res in out:
                if 'machinery' in res:
                    raise MachineryError(res['machinery'])
                kills['n'] += 1
                points += 1
                kills['killed_mid_run' if res['killed'] else 'finished_before_kill'] += 1
                for lab, fr in res['files'].items():
                    kills['post_startup' if fr['bucket'] == 'post' else 'pre_startup'] += 1
                    if fr['bucket'] == 'post' and any(o['mark'] >= 1 for o in fr['obs']):
                        ctx.note_nontrivial('%s/%s/kill@%d' % (name, lab, res['n']))
                    if fr['clause']:
                        ctx.violation({'run': ref['run'], 'sigkill_after_s': res['delay'], 'statements_begun': res['n'], 'file': lab},
                                      {'spec_observations_admissible': fr['obs'], 'prefix_of': ref['read'][lab]['list']},
                                      fr['detail'], fr['clause'] + ' (SIGKILL at a random time)',
                                      info={'kind': 'kill', 'clause': fr['clause']})
        ctx.extra['sigkill'] = kills

    ctx.impl = points
    ctx.evaluations = points
    ctx.exhaustive = True
    ctx.extra['crash_points'] = stats
    ctx.extra['runs'] = per_run
    ctx.extra['pre_startup_window'] = (
        '%d (file, boundary) pairs before the first completed startup leave a file CaseReader cannot open '
        '(no file yet, tables missing, or the metadata row still NULL); %d open. Not counted as violations: the property '
        'is read as "after the first startup completed".' % (stats['pre-startup-fails'], stats['pre-startup-opens']))
    for ref in usable[:2]:
        lab = _labels(ref['run'])[0]
        h = ref['hist'][lab]
        ks = [i + 1 for i, o in enumerate(h) if o['mark'] == 2][:1]
        ctx.sample({'run': ref['run'], 'statements': len(ref['events']), 'complete_case_list': ref['read'][lab]['list'],
                    'example_boundary_between_case_row_and_global_row': ks,
                    'spec_observation_there': h[ks[0] - 1] if ks else None})
    ctx.rule = ('for each recorded run (coupled ExecComp model with NLBGS/Newton; recorders on problem, driver, a group and its '
                'solver in the attachment/file-sharing/option combinations of the tier; DOEDriver, ScipyOptimizeDriver or '
                'run_model sequences) a child process is killed (os._exit) immediately before EVERY statement the recorder '
                'connections execute (1..N, and N+1 = before shutdown)%s; the file is opened with CaseReader and compared with '
                'the complete run and with CaseDBTrace\'s observation for that boundary; non-trivial = distinct '
                '(run, file, boundary) after the first startup that fall inside an open transaction (BEGIN executed, COMMIT '
                'not), including between a case row and its global_iterations row'
                % ('' if quick else '; plus 24 SIGKILLs per run at random wall-clock times'))
    ctx.assumptions = [
        "SQLite's atomic commit and rollback-journal recovery are trusted (CaseDB.Commit is one step); the crash is a "
        "process death (os._exit / SIGKILL), not a power loss: the OS keeps written pages",
        '"after the recorder started" = after the first completed SqliteRecorder.startup (first UPDATE metadata committed); '
        'earlier boundaries are exercised and counted in pre_startup_window, not judged',
        'statement boundaries are those SQLite reports through the trace callback of the recorder connection (incl. implicit '
        'BEGIN and COMMIT); a death inside a single statement is covered by the SIGKILL runs only',
        'serial runs (no MPI): one file holds cases and metadata',
        'equality of cases: name, source, counter, success, msg, abs/rel error, inputs, outputs, residuals, derivatives '
        '(timestamps excluded)',
    ]


if __name__ == '__main__':
    # stand-alone reproduction of one crash point
    import shutil
    import tempfile
    run_ = json.loads(sys.argv[1])
    k_ = int(sys.argv[2])
    import openmdao.api  # noqa: F401
    quiet()
    d = tempfile.mkdtemp(prefix='c18-', dir=os.environ.get('OPENMDAO_WORKDIR') or None)
    try:
        wait(spawn(run_, os.path.join(d, 'ref'), 0), os.path.join(d, 'ref'), (0,))
        wait(spawn(run_, os.path.join(d, 'crash'), k_), os.path.join(d, 'crash'), (9,))
        ev_ = json.load(open(os.path.join(d, 'crash', 'events.json')))
        print('statements executed before the crash: %d; last: %r' % (len(ev_), ev_[-3:]))
        for lab_ in _labels(run_):
            a_ = read_file(os.path.join(d, 'ref', lab_ + '.sql'), with_cases=False)
            b_ = read_file(os.path.join(d, 'crash', lab_ + '.sql'), with_cases=False)
            print('file %s: complete run lists %d cases' % (lab_, len(a_['list'])))
            print('  crashed: open=%s %s' % (b_['open'], b_.get('error', '')))
            if b_['open']:
                print('  list_cases(): %r' % (b_.get('list'),))
                print('  by source   : %r' % (b_.get('by_source'),))
                print('  case rows   : %r' % (b_.get('rows'),))
                print('  global rows : %r' % (b_.get('glob'),))
                print('  prefix: %s' % (b_.get('list') == a_['list'][:len(b_.get('list', []))]))
    finally:
        shutil.rmtree(d, ignore_errors=True)
