"""C13 - derivative checks report exactly what they compare.

Spec: spec/mech/CheckPartials.tla.  TLC enumerates affine components  y = A x + b  (integer A up to 3x3 quick /
3x4 thorough) x pattern on which analytic values are returned (full, exact, under-declared by 1..3 nonzeros in
different rows and columns) x storage kind (dense, rows/cols, diagonal, coo, csr, csc) x returned values (correct,
one wrong entry, wrong sign), checks the laws (UncoveredIffNotCovered, UnderFlagsAllColumns, ErrZeroIff,
NothingDropped, StorageIndependent, AbsIsMaxNorm, TotalsLaw) and exports, per scenario, the exact report a check has
to give: the two matrices, the error figures and the full set of uncovered nonzeros.

Binding: every exported scenario is built as a real ExplicitComponent and run through Problem.check_partials
(fd default step, fd with an exact power-of-two step and central form, cs); a subset additionally through
Problem.check_totals on the chain  x -> component -> (z = G y)  in fwd and rev mode.  The returned dictionaries are
compared with the spec's expectation field by field."""
import json
import math
import os
import random
import time
from fractions import Fraction as F

from ..tlc import MachineryError
from ..util import pmap, split

WORKERS = int(os.environ.get('VF_C13_WORKERS', min(16, os.cpu_count() or 1)))     # TLC workers and pool processes
BATCH = 40                                               # components per Problem in the check_partials pass

# (label, check_partials keyword arguments, tolerance on approximated values)
METHODS = (
    ('fd', dict(method='fd'), 1e-6),
    ('fdx', dict(method='fd', step=0.5, form='central'), 1e-12),     # exact for integer affine functions
    ('cs', dict(method='cs'), 1e-12),
)
TOT_METHODS = (
    ('cs', dict(method='cs'), 1e-12),
    ('fdx', dict(method='fd', step=0.5), 1e-12),
)
ATOL_AN = 1e-12       # analytic values are small integers: exact
G_TABLE = [[1, -1, 2], [2, 1, -1]]

# ---- the component under test --------------------------------------------------------------------
_CLS = None


def comp_class():
    global _CLS
    if _CLS is not None:
        return _CLS
    import numpy as np
    import openmdao.api as om
    from scipy.sparse import coo_matrix

    class AffineComp(om.ExplicitComponent):
        """y = A x + b with the scenario's declaration and analytic values."""

        def initialize(self):
            self.options.declare('sc', types=dict)

        def setup(self):
            s = self.options['sc']
            R, C = s['R'], s['C']
            self._A = np.array(s['A'], dtype=float).reshape((R, C))
            # step / directional families: curvature Q (y = A x + Q x^2 + b) and the way the check is run
            self._Q = np.array(s['Q'], dtype=float).reshape((R, C)) if 'Q' in s else None
            self._b = np.array(s['b'], dtype=float)
            self._rows = np.array([rc[0] - 1 for rc in s['pseq']], dtype=int)
            self._cols = np.array([rc[1] - 1 for rc in s['pseq']], dtype=int)
            self._vals = np.array(s['vals'], dtype=float)
            self._kind = kind = s['kind']
            self._shape = (R, C)
            self.add_input('x', val=np.arange(1.0, C + 1.0))
            self.add_output('y', val=np.zeros(R))
            if kind == 'dense':
                self.declare_partials('y', 'x')
            elif kind == 'rc':
                self.declare_partials('y', 'x', rows=self._rows, cols=self._cols)
            elif kind == 'diag':
                self.declare_partials('y', 'x', diagonal=True)
            else:
                m = coo_matrix((np.ones(len(self._rows)), (self._rows, self._cols)), shape=(R, C))
                self.declare_partials('y', 'x', val=getattr(m, 'to' + kind)())
            if s.get('md', {}).get('dir'):
                self.set_check_partial_options('x', directional=True)

        def compute(self, inputs, outputs):
            outputs['y'] = self._A.dot(inputs['x']) + self._b
            if self._Q is not None:
                outputs['y'] += self._Q.dot(inputs['x'] ** 2)

        def compute_partials(self, inputs, partials):
            kind = self._kind
            if kind == 'dense':
                d = np.zeros(self._shape)
                d[self._rows, self._cols] = self._vals
                partials['y', 'x'] = d
            elif kind in ('rc', 'diag'):
                partials['y', 'x'] = self._vals
            else:
                # fresh arrays: a sparse value is stored by reference and the check writes the approximation into
                # the same storage afterwards (outside this property; see the driver's assumptions)
                m = coo_matrix((self._vals.copy(), (self._rows.copy(), self._cols.copy())), shape=self._shape)
                partials['y', 'x'] = getattr(m, 'to' + kind)()

    _CLS = AffineComp
    return _CLS


def g_scenario(R):
    """second component of the check_totals chain: z = G y, dense, correct"""
    A = [row[:R] for row in G_TABLE]
    pseq = [[i + 1, j + 1] for i in range(len(A)) for j in range(R)]
    return {'R': len(A), 'C': R, 'kind': 'dense', 'an': 'correct', 'pc': 'full', 'nd': 0, 'A': A,
            'b': [0] * len(A), 'pseq': pseq, 'vals': [A[i - 1][j - 1] for i, j in pseq]}


# ---- independent re-computation of the spec's expectation (oracle self-check) ---------------------------
def _report_ref(Jf, Jd):
    cells = [(i, j) for i in range(len(Jf)) for j in range(len(Jf[0]))]
    e = {x: abs(Jf[x[0]][x[1]] - Jd[x[0]][x[1]]) for x in cells}
    key = {x: e[x] * 10 ** 6 - abs(Jd[x[0]][x[1]]) for x in cells}
    kmax = max(key.values())
    arg = [x for x in cells if key[x] == kmax]
    a = arg[0]
    ref = abs(Jd[a[0]][a[1]])
    tv = F(kmax, 10 ** 6)
    rel = F(e[a], ref) if ref else None
    return {'abs': e[a], 'rel': [rel.numerator, rel.denominator] if rel is not None else ([1, 0] if e[a] else [0, 0]),
            'tv': [tv.numerator, tv.denominator],
            'pairs': sorted({(Jf[x[0]][x[1]], Jd[x[0]][x[1]]) for x in arg}),
            'fro2': sum(v * v for v in e.values()), 'magf': max(abs(Jf[i][j]) for i, j in cells),
            'magd': max(abs(Jd[i][j]) for i, j in cells)}


def oracle_ref(s):
    R, C = s['R'], s['C']
    A = s['A']
    P = {tuple(rc): v for rc, v in zip(s['pseq'], s['vals'])}
    decl = {(r, c) for r in range(1, R + 1) for c in range(1, C + 1)} if s['kind'] == 'dense' else set(P)
    jf = [[P.get((r, c), 0) for c in range(1, C + 1)] for r in range(1, R + 1)]
    jd = [[A[r - 1][c - 1] if (r, c) in decl else 0 for c in range(1, C + 1)] for r in range(1, R + 1)]
    unc = sorted((r, c) for r in range(1, R + 1) for c in range(1, C + 1) if A[r - 1][c - 1] != 0 and (r, c) not in decl)
    tot = lambda M: [[sum(G_TABLE[i][r] * M[r][c] for r in range(R)) for c in range(C)] for i in range(len(G_TABLE))]
    return {'jfwd': jf, 'jfd': jd, 'unc': unc, 'p': _report_ref(jf, jd), 'ty': _report_ref(jf, A),
            'tzf': tot(jf), 'tzd': tot(A), 'tz': _report_ref(tot(jf), tot(A))}


def oracle_ref_modes(s):
    """independent re-computation of the per-step reports of the step / directional families"""
    R, C = s['R'], s['C']
    A, Q, md = s['A'], s['Q'], s['md']
    J = [[A[r][c] + 2 * Q[r][c] * (c + 1) for c in range(C)] for r in range(R)]
    P = {tuple(rc): v for rc, v in zip(s['pseq'], s['vals'])}
    decl = {(r, c) for r in range(1, R + 1) for c in range(1, C + 1)} if s['kind'] == 'dense' else set(P)
    jf = [[P.get((r, c), 0) for c in range(1, C + 1)] for r in range(1, R + 1)]
    out = []
    for n in md['st']:
        full = [[J[r][c] + F(Q[r][c], n) for c in range(C)] for r in range(R)]
        if any(x.denominator != 1 for row in full for x in row):
            raise MachineryError('step family: non-integer quotient')
        full = [[int(x) for x in row] for row in full]
        if md['dir']:
            f1 = [[sum(row)] for row in jf]
            d1 = [[sum(row)] for row in full]
            out.append({'jfwd': f1, 'jfd': d1, 'unc': [], 'p': _report_ref(f1, d1)})
        else:
            d = [[full[r - 1][c - 1] if (r, c) in decl else 0 for c in range(1, C + 1)] for r in range(1, R + 1)]
            unc = sorted((r, c) for r in range(1, R + 1) for c in range(1, C + 1)
                         if full[r - 1][c - 1] != 0 and (r, c) not in decl)
            out.append({'jfwd': jf, 'jfd': d, 'unc': unc, 'p': _report_ref(jf, d)})
    return out


def oracle_disagreement(s, v):
    if 'md' in s:
        ref = oracle_ref_modes(s)
        if len(ref) != len(v['steps']):
            return 'steps: spec %d, reference %d' % (len(v['steps']), len(ref))
        for k, (a, b) in enumerate(zip(ref, v['steps'])):
            for key in ('jfwd', 'jfd'):
                if a[key] != b[key]:
                    return 'step %d %s: spec %s, reference %s' % (k, key, b[key], a[key])
            if sorted(tuple(x) for x in b['unc']) != a['unc']:
                return 'step %d unc: spec %s, reference %s' % (k, b['unc'], a['unc'])
            for f in ('abs', 'rel', 'tv', 'fro2', 'magf', 'magd'):
                if a['p'][f] != b['p'][f]:
                    return 'step %d p.%s: spec %s, reference %s' % (k, f, b['p'][f], a['p'][f])
            if a['p']['pairs'] != sorted(tuple(x) for x in b['p']['pairs']):
                return 'step %d p.pairs: spec %s, reference %s' % (k, b['p']['pairs'], a['p']['pairs'])
        return None
    ref = oracle_ref(s)
    for k in ('jfwd', 'jfd', 'tzf', 'tzd'):
        if ref[k] != v[k]:
            return '%s: spec %s, reference %s' % (k, v[k], ref[k])
    if sorted(tuple(x) for x in v['unc']) != ref['unc']:
        return 'unc: spec %s, reference %s' % (v['unc'], ref['unc'])
    for k in ('p', 'ty', 'tz'):
        for f in ('abs', 'rel', 'tv', 'fro2', 'magf', 'magd'):
            if ref[k][f] != v[k][f]:
                return '%s.%s: spec %s, reference %s' % (k, f, v[k][f], ref[k][f])
        if ref[k]['pairs'] != sorted(tuple(x) for x in v[k]['pairs']):
            return '%s.pairs: spec %s, reference %s' % (k, v[k]['pairs'], ref[k]['pairs'])
    return None


# ---- observation -----------------------------------------------------------------------------------------
def _extract(e, partials, step=None):
    """plain-python projection of one (of, wrt) entry of the returned dictionary (step: index into the per-step
    lists a check called with a list of steps returns)"""
    import numpy as np
    if 'J_fwd' in e:
        jname, side = 'J_fwd', 'forward'
    else:
        jname, side = 'J_rev', 'reverse'
    J = e[jname]
    if hasattr(J, 'toarray'):
        J = J.toarray()
    pick = (lambda x: x) if step is None else (lambda x: x[step])
    o = {'jname': jname, 'J': np.asarray(J, dtype=float).tolist(),
         'Jfd': np.asarray(pick(e['J_fd']), dtype=float).tolist()}
    for key, name in (('abs error', 'abs'), ('rel error', 'rel'), ('tol violation', 'tv')):
        val = getattr(pick(e[key]), side)
        o[name] = None if val is None else float(val)
    pr = getattr(pick(e['vals_at_max_error']), side)
    o['pair'] = None if pr is None else [float(pr[0]), float(pr[1])]
    o['magf'] = float(getattr(pick(e['magnitude']), side))
    o['magd'] = float(pick(e['magnitude']).fd)
    if partials:
        o['unc_key'] = 'uncovered_nz' in e
        o['unc'] = [[int(r), int(c)] for r, c in e.get('uncovered_nz', [])]
    return o


def _close(a, b, tol):
    if a is None or b is None:
        return False
    if math.isinf(a) or math.isinf(b) or math.isnan(a) or math.isnan(b):
        return a == b
    return abs(a - b) <= tol * (1.0 + abs(b))


def _mat_bad(obs, exp, tol):
    if len(obs) != len(exp) or any(len(ro) != len(re_) for ro, re_ in zip(obs, exp)):
        return True
    return any(not _close(float(a), float(b), tol) for ro, re_ in zip(obs, exp) for a, b in zip(ro, re_))


def compare(o, jf, jd, rep, tol, unc=None):
    """-> list of {'clause','expected','observed'} : what the returned entry `o` gets wrong"""
    fails = []

    def bad(clause, expected, observed):
        fails.append({'clause': clause, 'expected': expected, 'observed': observed})

    if 'raised' in o:
        bad('check raised', 'a report', o['raised'])
        return fails
    if _mat_bad(o['J'], jf, ATOL_AN):
        bad('%s differs from the values the component returned' % o['jname'], jf, o['J'])
    if _mat_bad(o['Jfd'], jd, tol):
        bad('J_fd differs from the exact quotient', jd, o['Jfd'])
    # error figures: from the spec's difference matrix ...
    if not _close(o['abs'], float(rep['abs']), tol):
        bad('abs error differs from the spec', rep['abs'], o['abs'])
    # ... and from the matrices that were reported
    import numpy as np
    if not fails:
        diff = np.asarray(o['J']) - np.asarray(o['Jfd'])
        if not _close(o['abs'], float(np.max(np.abs(diff))), tol):
            bad('abs error is not the max-norm of (reported J - reported J_fd)', float(np.max(np.abs(diff))), o['abs'])
        if not _close(float(np.linalg.norm(diff)), math.sqrt(rep['fro2']), tol):
            bad('Frobenius norm of (reported J - reported J_fd) differs from the spec', math.sqrt(rep['fro2']),
                float(np.linalg.norm(diff)))
    n, d = rep['rel']
    if d != 0:
        if not _close(o['rel'], n / d, tol):
            bad('rel error differs from the spec', [n, d], o['rel'])
    elif n == 1 and not (o['rel'] is not None and math.isinf(o['rel'])):
        bad('rel error should be inf (nonzero error against a zero reference)', 'inf', o['rel'])
    if not _close(o['tv'], rep['tv'][0] / rep['tv'][1], tol):
        bad('tol violation differs from the spec', rep['tv'], o['tv'])
    if o['pair'] is None or not any(_close(o['pair'][0], float(a), ATOL_AN) and _close(o['pair'][1], float(b), tol)
                                    for a, b in rep['pairs']):
        bad('vals_at_max_error is not an (analytic, approximated) pair at the largest violation', rep['pairs'], o['pair'])
    if not _close(o['magf'], float(rep['magf']), ATOL_AN) or not _close(o['magd'], float(rep['magd']), tol):
        bad('magnitude differs from the max-norms of the matrices', [rep['magf'], rep['magd']], [o['magf'], o['magd']])
    if unc is not None:
        want = sorted([r - 1, c - 1] for r, c in unc)
        got = sorted(o['unc'])
        if got != want:
            if sorted(set(map(tuple, got))) == sorted(map(tuple, want)):
                bad('uncovered_nz lists an entry more than once', want, o['unc'])
            else:
                bad('uncovered_nz is not the set of approximated nonzeros outside the declared pattern', want, o['unc'])
    return fails


def _check_partials(p, name, kw):
    try:
        d = p.check_partials(includes=[name], out_stream=None, compact_print=False, **kw)
        return _extract(d[name][('y', 'x')], True)
    except Exception as ex:     # the report itself is the subject: an exception is an observation
        return {'raised': '%s: %s' % (type(ex).__name__, ex)}


def _judge_modes(p, name, s, v):
    """step / directional families: one check_partials call with the scenario's list of steps (forward differences,
    exact for the quadratic component), every step's report compared with the spec's"""
    steps = [1.0 / n for n in s['md']['st']]
    many = len(steps) > 1
    label = 'fd forward step=%s%s' % (steps if many else steps[0], ' directional' if s['md']['dir'] else '')
    try:
        d = p.check_partials(includes=[name], out_stream=None, compact_print=False, method='fd', form='forward',
                             step=steps if many else steps[0])
        e = d[name][('y', 'x')]
        if many and not (isinstance(e['J_fd'], list) and len(e['J_fd']) == len(steps)):
            return [{'clause': 'a check with a list of steps returns one J_fd per step', 'expected': len(steps),
                     'observed': str(type(e['J_fd'])), 'method': label}]
        obs = [_extract(e, True, k if many else None) for k in range(len(steps))]
    except Exception as ex:     # the report itself is the subject: an exception is an observation
        obs = [{'raised': '%s: %s' % (type(ex).__name__, ex)}]
    fails = []
    for k, o in enumerate(obs):
        w = v['steps'][k]
        for f in compare(o, w['jfwd'], w['jfd'], w['p'], 1e-12, unc=w['unc']):
            f['method'] = label
            if many:
                f['clause'] = 'step %d of %d (h=%s): %s' % (k + 1, len(steps), steps[k], f['clause'])
            fails.append(f)
    return fails


def _judge_partials(p, name, s, v, fdx=True):
    """run the method sequence on component `name` (one Problem, consecutive calls) -> list of disagreements"""
    if 'md' in s:
        return _judge_modes(p, name, s, v)
    fails = []
    for label, kw, tol in METHODS:
        if label == 'fdx' and not fdx:
            continue
        o = _check_partials(p, name, kw)
        for f in compare(o, v['jfwd'], v['jfd'], v['p'], tol, unc=v['unc']):
            f['method'] = label
            fails.append(f)
    return fails


def _single_problem(s):
    import openmdao.api as om
    p = om.Problem()
    p.model.add_subsystem('c0', comp_class()(sc=s))
    p.setup(force_alloc_complex=True)
    p.run_model()
    return p


def partials_single(s, v, fdx=True):
    """one scenario in a problem of its own (confirmation of a batch failure, replay)"""
    try:
        p = _single_problem(s)
    except Exception as ex:
        return None, 'setup: %s: %s' % (type(ex).__name__, ex)
    return _judge_partials(p, 'c0', s, v, fdx), None


def totals_single(s, v, mode):
    import numpy as np
    import openmdao.api as om
    try:
        p = om.Problem()
        p.model.add_subsystem('ivc', om.IndepVarComp('x', np.arange(1.0, s['C'] + 1.0)))
        p.model.add_subsystem('s', comp_class()(sc=s))
        p.model.add_subsystem('g', comp_class()(sc=g_scenario(s['R'])))
        p.model.connect('ivc.x', 's.x')
        p.model.connect('s.y', 'g.x')
        p.setup(force_alloc_complex=True, mode=mode)
        p.run_model()
    except Exception as ex:
        return None, 'setup: %s: %s' % (type(ex).__name__, ex)
    fails = []
    for label, kw, tol in TOT_METHODS:
        try:
            d = p.check_totals(of=['s.y', 'g.y'], wrt=['ivc.x'], out_stream=None, compact_print=False, **kw)
            oy = _extract(d[('s.y', 'ivc.x')], False)
            oz = _extract(d[('g.y', 'ivc.x')], False)
        except Exception as ex:
            oy = oz = {'raised': '%s: %s' % (type(ex).__name__, ex)}
        want = 'J_fwd' if mode == 'fwd' else 'J_rev'
        for pair, o, jf, jd, rep in (('dy/dx', oy, v['jfwd'], s['A'], v['ty']), ('dz/dx', oz, v['tzf'], v['tzd'], v['tz'])):
            fs = compare(o, jf, jd, rep, tol)
            if 'raised' not in o and o['jname'] != want:
                fs.append({'clause': 'analytic total reported under the wrong key', 'expected': want, 'observed': o['jname']})
            for f in fs:
                f['method'] = 'check_totals(%s, %s) %s' % (label, mode, pair)
                f['clause'] = 'check_totals: ' + f['clause']
                fails.append(f)
    return fails, None


_ITEMS = None      # [(idx, scenario, spec expectation, check_totals mode or None, run fdx?)], inherited through fork
CONFIRM = 5        # failures of one signature that are re-run in a problem of their own, per worker chunk


def _signature(s, fails):
    return (s['kind'], json.dumps(s.get('md')), tuple(sorted({(f.get('method'), f['clause']) for f in fails})))


def _worker(job):
    """job = (workdir, positions in _ITEMS) -> {'res': [(idx, fails, rejected, evaluations)]}"""
    work, positions = job
    items = [_ITEMS[k] for k in positions]
    from ..util import quiet
    quiet()
    os.chdir(work)
    import openmdao.api as om
    res = {}
    for idx, s, v, _, _ in items:
        bad = oracle_disagreement(s, v)
        if bad:
            return {'machinery': 'spec and independent reference disagree on %s: %s' % (json.dumps(s), bad)}
        res[idx] = {'fails': [], 'rej': None, 'n': 0}
    confirmed, refuted = {}, set()
    for k0 in range(0, len(items), BATCH):
        batch = items[k0:k0 + BATCH]
        p = None
        try:
            p = om.Problem()
            for k, (idx, s, v, _, _) in enumerate(batch):
                p.model.add_subsystem('c%d' % k, comp_class()(sc=s))
            p.setup(force_alloc_complex=True)
            p.run_model()
        except Exception:
            p = None
        for k, (idx, s, v, _, fdx) in enumerate(batch):
            nm = 1 if 'md' in s else (len(METHODS) if fdx else len(METHODS) - 1)
            fails = _judge_partials(p, 'c%d' % k, s, v, fdx) if p is not None else [{'clause': 'batch setup failed'}]
            res[idx]['n'] += nm
            if fails:
                # A disagreement seen in the shared Problem is re-run in a Problem of its own and only reported if
                # it repeats there; after CONFIRM repeats of the same (kind, methods, clauses) signature the shared
                # observation is taken as it is, unless that signature ever failed to repeat.
                sig = _signature(s, fails)
                if p is None or sig in refuted or confirmed.get(sig, 0) < CONFIRM:
                    alone, rej = partials_single(s, v, fdx)
                    res[idx]['n'] += nm
                    if rej:
                        res[idx]['rej'] = rej
                        continue
                    if alone and _signature(s, alone) == sig:
                        confirmed[sig] = confirmed.get(sig, 0) + 1
                    else:
                        refuted.add(sig)
                    fails = alone
            res[idx]['fails'] = fails
    for idx, s, v, mode, _ in items:
        if mode is None or res[idx]['rej']:
            continue
        fails, rej = totals_single(s, v, mode)
        if rej:
            res[idx]['rej'] = rej
            continue
        res[idx]['n'] += 2 * len(TOT_METHODS)
        res[idx]['fails'] = res[idx]['fails'] + fails
    return {'res': [(idx, r['fails'], r['rej'], r['n']) for idx, r in res.items()]}


# ---- known-finding predicates: exactly the scenarios that fail because of one defect ----------------------------
def _only_uncovered(info):
    fails = info.get('fails') or []
    return bool(fails) and all(f['clause'].startswith('uncovered_nz is not the set') for f in fails)


def pred_incomplete(s, info):
    """sparse set_col bookkeeping: rows/cols, coo, csc keep the first offending column only; csr keeps nothing"""
    if s.get('kind') not in ('rc', 'coo', 'csr', 'csc') or 'md' in s or not _only_uncovered(info):
        return False
    for f in info['fails']:
        want = sorted(map(tuple, f['expected']))
        got = sorted(map(tuple, f['observed']))
        if not want:
            return False
        if s['kind'] == 'csr':
            ok = got == [] and len(want) >= 1
        else:
            first_col = min(c for _, c in want)
            ok = len({c for _, c in want}) >= 2 and got == [x for x in want if x[1] == first_col]
        if not ok:
            return False
    return True


def pred_diag_keyerror(s, info):
    """DiagonalSubjac.set_col records uncovered entries without 'uncovered_threshold': check_partials raises KeyError"""
    fails = info.get('fails') or []
    return s.get('kind') == 'diag' and bool(info.get('spec_unc')) and bool(fails) and \
        all(f['clause'] == 'check raised' and 'KeyError' in str(f['observed']) and
            'uncovered_threshold' in str(f['observed']) for f in fails)


def pred_multistep_alias(s, info):
    """check_partials(step=[h1, h2, ..]): the J_fd entries of a dense-declared (or directional) partial are one array
    holding the last step's quotient, and the per-step `magnitude` records are one object holding the maximum over the
    steps: everything reported for an earlier step is computed from another step's numbers"""
    md = s.get('md')
    fails = info.get('fails') or []
    if not md or len(md['st']) < 2 or not fails or (md['dir'] and s.get('kind') != 'dense'):
        return False
    n = len(md['st'])
    for f in fails:
        c = f['clause']
        if not c.startswith('step ') or 'check raised' in c:
            return False
        k = int(c.split()[1])
        if not (k < n or 'magnitude differs' in c):
            return False
    return True


def pred_directional_sparse(s, info):
    """directional check of a partial declared with rows/cols, diagonal or a scipy sparse value: the directional
    quotient is forced into the declared pattern (exception, or J_fd made of analytic leftovers plus false uncovered_nz)"""
    md = s.get('md')
    return bool(md and md['dir'] and s.get('kind') != 'dense' and (info.get('fails') or []))


# ModeSeq of CheckPartials.tla (RpMode is the 1-based index)
MODE_SEQ = [{'q': 1, 'st': [2, 4], 'dir': False}, {'q': 1, 'st': [4, 2], 'dir': False}, {'q': 1, 'st': [2], 'dir': False},
            {'q': 0, 'st': [2], 'dir': True}, {'q': 1, 'st': [4, 2], 'dir': True}]

PREDICATES = {'C13-uncovered-nz-incomplete': pred_incomplete,
              'C13-uncovered-nz-diagonal-keyerror': pred_diag_keyerror,
              'C13-multistep-shared-report': pred_multistep_alias,
              'C13-directional-sparse-declared': pred_directional_sparse}


def _report(ctx, s, v, fails):
    f0 = fails[0]
    clause = '%s [%s]' % (f0['clause'], f0.get('method', ''))
    if len(fails) > 1:
        clause += ' (+%d more disagreements in this scenario)' % (len(fails) - 1)
    snippet = ('build: vf.drivers.c13.partials_single(scenario, expected) / totals_single(scenario, expected, mode); '
               './check C13 --replay <this file>')
    info = {'clause': f0['clause'], 'observed': f0['observed'], 'fails': fails,
            'spec_unc': v['unc'] if 'unc' in v else v['steps'][0]['unc']}
    # tally by defect class (whether or not the class is listed in known_findings.json)
    cls = [k for k, pred in PREDICATES.items() if pred(s, info)] or ['unclassified']
    tally = ctx.extra.setdefault('disagreeing_scenarios_by_class', {})
    for k in cls:
        tally[k] = tally.get(k, 0) + 1
    return ctx.violation(s, v, {'first': f0['observed'], 'all': [[f.get('method'), f['clause'], f['observed']]
                                                                  for f in fails[:12]]},
                         clause, snippet=snippet, info=info)


def _bits(C, cells):
    return sum(2 ** ((r - 1) * C + c - 1) for r, c in cells)


def _cfg(consts):
    c = dict(RpR=1, RpC=1, RpKind='"dense"', RpAn='"correct"', RpPc='"full"', RpS=1, RpD=0, RpMode=0, ModeMod=1,
             init='Init')
    c.update(consts)
    return '''CONSTANTS
  MaxR = 3
  MaxC = %(MaxC)d
  SupMod9 = %(SupMod9)d
  SupMod12 = %(SupMod12)d
  SupRem = %(SupRem)d
  CrossMod9 = %(CrossMod9)d
  CrossMod12 = %(CrossMod12)d
  ModeMod = %(ModeMod)d
  RpR = %(RpR)d
  RpC = %(RpC)d
  RpKind = %(RpKind)s
  RpAn = %(RpAn)s
  RpPc = %(RpPc)s
  RpS = %(RpS)d
  RpD = %(RpD)d
  RpMode = %(RpMode)d
INIT %(init)s
NEXT Next
INVARIANT WellFormed
INVARIANT UncoveredIffNotCovered
INVARIANT UnderFlagsAllColumns
INVARIANT ErrZeroIff
INVARIANT NothingDropped
INVARIANT StorageIndependent
INVARIANT AbsIsMaxNorm
INVARIANT TotalsLaw
INVARIANT StepLaw
INVARIANT NoAlias
INVARIANT CorrectStepError
INVARIANT Export
''' % c


def _replay(ctx):
    """./check C13 --replay <file>: TLC evaluates the spec (laws and expected report) on exactly the stored scenario,
    which is then run through check_partials (all methods) and check_totals (fwd and rev)."""
    from ..util import quiet
    quiet()
    with open(ctx.replay) as fh:
        rec = json.load(fh)
    s = rec['scenario']
    R, C = s['R'], s['C']
    S = [(r, c) for r in range(1, R + 1) for c in range(1, C + 1) if s['A'][r - 1][c - 1] != 0]
    P = {tuple(x) for x in s['pseq']}
    D = [x for x in S if x not in P] if s['pc'] == 'under' else []
    mode = 0
    if 'md' in s:
        if s['md'] not in MODE_SEQ:
            raise MachineryError('replay: unknown mode %s' % (s['md'],))
        mode = MODE_SEQ.index(s['md']) + 1
    cfg = ctx.write_cfg('CheckPartials_replay.cfg', _cfg(dict(
        MaxC=max(3, C), SupMod9=1, SupMod12=1, SupRem=0, CrossMod9=1, CrossMod12=1, RpR=R, RpC=C,
        RpKind='"%s"' % s['kind'], RpAn='"%s"' % s['an'], RpPc='"%s"' % s['pc'], RpS=_bits(C, S), RpD=_bits(C, D),
        RpMode=mode, init='InitReplay')))
    r = ctx.tlc_check('mech/CheckPartials', cfg, timeout=600, workers=1)
    exps = r.exports('EXPM' if mode else 'EXP')
    if len(exps) != 1 or exps[0]['s'] != s:
        raise MachineryError('replay: the stored scenario is not one of the spec\'s (TLC gave %s)'
                             % ([e['s'] for e in exps][:1],))
    v = exps[0]['v']
    os.chdir(ctx.work)
    bad = oracle_disagreement(s, v)
    if bad:
        raise MachineryError('spec and independent reference disagree: %s' % bad)
    fails, rej = partials_single(s, v)
    if rej:
        raise MachineryError('replay: %s' % rej)
    for mode in (() if 'md' in s else ('fwd', 'rev')):
        f2, rej = totals_single(s, v, mode)
        if rej:
            raise MachineryError('replay: %s' % rej)
        fails = fails + f2
    ctx.impl = 1
    ctx.evaluations = 1 if 'md' in s else len(METHODS) + 4 * len(TOT_METHODS)
    ctx.note_nontrivial(json.dumps(s, sort_keys=True))
    ctx.sample({'scenario': s, 'spec_report': v, 'disagreements': [[f.get('method'), f['clause']] for f in fails]})
    ctx.rule = 'replay of one stored scenario (expectation recomputed by TLC)'
    for f in fails[:20]:
        print('  %-12s %s\n      expected %s\n      observed %s' % (f.get('method'), f['clause'], f['expected'], f['observed']))
    if fails:
        _report(ctx, s, v, fails)
    else:
        print('replay: the stored scenario agrees with the spec')


def run(ctx):
    ctx.register_predicates(PREDICATES)
    if getattr(ctx, 'replay', None):
        return _replay(ctx)
    quick = ctx.tier == 'quick'
    # shapes below 9 cells: everything.  quick: half of the 3x3 supports (rotating with the seed), a quarter of the
    # (under-declared AND wrong values) combinations.  thorough: all of 3x3, a sixteenth of the 3x4 supports.
    consts = dict(MaxC=3, SupMod9=2, SupMod12=1, CrossMod9=4, CrossMod12=1, ModeMod=8) if quick else \
        dict(MaxC=4, SupMod9=1, SupMod12=16, CrossMod9=1, CrossMod12=4, ModeMod=1)
    consts['SupRem'] = ctx.seed % 16
    cfg = ctx.write_cfg('CheckPartials.cfg', _cfg(consts))
    marks = [('start', time.time())]
    r = ctx.tlc_check('mech/CheckPartials', cfg, timeout=3000, heap='12g', workers=WORKERS)
    marks.append(('tlc', time.time()))
    ctx.require_actions(['ChooseSupport', 'ChoosePattern', 'ChooseMode'])
    exps = r.exports('EXP')
    exps_m = r.exports('EXPM')
    if not exps or not exps_m:
        raise MachineryError('no scenarios exported')
    if len(exps) != ctx.coverage_actions.get('ChoosePattern') or len(exps_m) != ctx.coverage_actions.get('ChooseMode'):
        raise MachineryError('exported %d + %d scenarios but ChoosePattern / ChooseMode produced %s / %s states'
                             % (len(exps), len(exps_m), ctx.coverage_actions.get('ChoosePattern'),
                                ctx.coverage_actions.get('ChooseMode')))
    del r
    exps.sort(key=lambda e: json.dumps(e['s'], sort_keys=True))
    exps_m.sort(key=lambda e: json.dumps(e['s'], sort_keys=True))
    n_base = len(exps)
    exps = exps + exps_m        # the step / directional families: check_partials only, one call each
    # check_totals: every scenario with fewer than 9 cells, every 4th of the larger ones (rotating with the seed);
    # fwd and rev mode alternate
    items = []
    for i, e in enumerate(exps):
        s = e['s']
        tot = i < n_base and (s['R'] * s['C'] < 9 or (i + ctx.seed) % 4 == 0)
        items.append((i, s, e['v'], (('fwd', 'rev')[(i // 4) % 2]) if tot else None, (i + ctx.seed) % 4 == 1))
    rnd = random.Random(ctx.seed)
    rnd.shuffle(items)          # even load per chunk
    marks.append(('parse', time.time()))
    from ..util import quiet
    quiet()                     # import OpenMDAO once, before the fork
    global _ITEMS
    _ITEMS = items
    out = pmap(_worker, [(ctx.work, ch) for ch in split(list(range(len(items))), WORKERS * 6)], nproc=WORKERS)
    _ITEMS = None
    marks.append(('replay', time.time()))
    results = {}
    for o in out:
        if 'machinery' in o:
            raise MachineryError(o['machinery'])
        for idx, fails, rej, n in o['res']:
            results[idx] = (fails, rej, n)
    if len(results) != len(exps):
        raise MachineryError('lost results: %d of %d' % (len(results), len(exps)))
    rejected = []
    n_tot = 0
    for i, e in enumerate(exps):
        s, v = e['s'], e['v']
        fails, rej, n = results[i]
        if rej:
            rejected.append((s, rej))
            continue
        ctx.impl += 1
        ctx.evaluations += n
        if 'md' in s:
            ctx.note_nontrivial(json.dumps([s['A'], s['pseq'], s['kind'], s['an'], s['md']]))
        elif v['unc'] or v['p']['abs'] != 0 or v['ty']['abs'] != 0:
            ctx.note_nontrivial(json.dumps([s['A'], s['pseq'], s['kind'], s['an']]))
        if fails:
            _report(ctx, s, v, fails)
    n_tot = sum(1 for it in items if it[3] is not None)
    if len(rejected) > 0.01 * len(exps):
        raise MachineryError('%d of %d scenarios could not be set up, e.g. %s' % (len(rejected), len(exps), rejected[0]))
    ctx.extra['rejected_configurations'] = len(rejected)
    marks.append(('judge', time.time()))
    ctx.extra['phase_wall_s'] = {b[0]: round(b[1] - a[1], 1) for a, b in zip(marks, marks[1:])}
    ctx.extra['check_totals_scenarios'] = n_tot
    ctx.extra['step_and_directional_scenarios'] = len(exps_m)
    ctx.exhaustive = False      # shapes below 9 cells are complete, the larger ones are sampled (see rule)
    under3 = [e for e in exps if e['s']['nd'] == 3 and e['s']['kind'] == 'csc' and e['s']['an'] == 'correct']
    wrong = [e for e in exps if e['s']['an'] == 'wrong1' and e['s']['kind'] == 'rc' and e['s']['R'] == 2 and e['s']['C'] == 3]
    multi = [e for e in exps_m if e['s']['md']['st'] == [2, 4] and e['s']['kind'] == 'dense' and e['s']['R'] == 2][:1]
    if multi:
        ctx.sample({'scenario': multi[0]['s'], 'spec_report_per_step': [
            {'J_fd': st['jfd'], 'abs error': st['p']['abs'], 'uncovered_nz(1-based)': st['unc']} for st in multi[0]['v']['steps']]})
    for e in (under3[:1] + wrong[:1] + exps[:1])[:2]:
        ctx.sample({'scenario': e['s'], 'spec_report': {'J_fwd': e['v']['jfwd'], 'J_fd': e['v']['jfd'],
                                                        'uncovered_nz(1-based)': e['v']['unc'],
                                                        'abs error': e['v']['p']['abs'], 'fro^2': e['v']['p']['fro2']}})
    ctx.rule = ('scenarios of CheckPartials.tla: y = A x + b, A = a support S (non-empty subset of the cells) of a fixed '
                'integer table; values returned on P in {all cells, S, S minus 1..3 nonzeros in pairwise different rows '
                'and columns}; storage in {dense, rows/cols, diagonal, coo, csr, csc}; values in {correct, one entry +1, '
                'all signs flipped}.  Shapes with fewer than 9 cells: all of them.  %s.  Each scenario is run through '
                'check_partials with fd (default step) and cs, a quarter also with fd (step 0.5, central); all '
                'scenarios below 9 cells and a quarter of the larger ones through check_totals (cs and fd; fwd or rev) '
                'on the chain x -> comp -> G y.  Compared per pair: analytic and approximated matrices, abs/rel error, '
                'tolerance violation, values at the maximum, magnitudes, Frobenius norm of the reported difference, and '
                'the uncovered_nz list as a set of (row, col).  Step / directional families (ChooseMode): the base '
                'scenarios with at most 6 cells (6 cells: every %d-th support), correct or one wrong value, at most one '
                'removed nonzero, with curvature (y = A x + Q x^2 + b, Q = 4 sgn A) x {steps [1/2, 1/4], [1/4, 1/2], '
                '[1/2]} and directional checks {affine, step 1/2; curved, steps [1/4, 1/2]}: one check_partials call '
                '(fd, forward) with the list of steps, every step\'s J_fd / errors / magnitudes / uncovered_nz compared '
                'with the exact quotient J + Q h of THAT step.  non-trivial = distinct scenarios with a flagged '
                'nonzero or a nonzero error (every step / directional scenario)' % (
                    '3x3: the supports with SupHash mod 2 = seed mod 2, and every 4th combination of an under-declared '
                    'pattern with wrong values' if quick else
                    '3x3: all; 3x4: the supports with SupHash mod 16 = seed mod 16, every 4th combination of an '
                    'under-declared pattern with wrong values', 4 if quick else 1))
    ctx.assumptions = [
        'affine integer components, and quadratic ones with forward differences of step 1/2, 1/4 (step families): the '
        'approximation is exact in floating point, so truncation/conditioning of FD is out of scope',
        'one (of, wrt) pair per component, no units, no src_indices, no duplicate rows/cols entries, no matrix-free '
        'or implicit components; lists of steps and directional checks for check_partials only (not check_totals)',
        'a directional check reports vectors with one entry per output row (J . 1 and the quotient along 1) whatever '
        'the declared storage, and flags nothing: one direction cannot be attributed to columns of a pattern',
        '`abs error` is the difference at the entry with the largest tolerance violation |dJ| - rtol |J_fd| (the '
        'documented ranking); on the integer scenarios this entry also carries the largest difference (law AbsIsMaxNorm)',
        'a sparse-declared partial reports J_fd on its declared cells only (by design of the checking Jacobian); '
        'nonzeros outside are reported through uncovered_nz, which is what the spec demands to be complete',
        'the harness hands a fresh sparse matrix to the Jacobian in every compute_partials call: a sparse value is kept '
        'by reference and the check writes the approximated columns into the same storage (a side effect that belongs '
        'to the read-only properties, not to this one)',
        'where several entries tie for the largest tolerance violation any of them is accepted for vals_at_max_error; '
        'rel error is not compared when it is 0/0',
    ]
