"""C31 - evaluations are deterministic and derivative queries are read-only.

Spec: spec/sys/OMProblem.tla - the Problem API over the visible model state (digest of all inputs and outputs).
Read-only calls leave it UNCHANGED; run_model is a FUNCTION of it.  For every generated model two Problem instances
are driven through the same mutating calls (set_val, run_model) with different, random interleavings of read-only calls
(compute_totals, compute_jacvec_product, check_partials fd/cs, check_totals, total coloring, list_inputs/outputs,
get_val); all events are merged into one trace and TLC validates it (invariants Functional, ReadOnlyUnchanged)."""
import hashlib
import io
import random

import numpy as np

from .. import ombuild as ob
from .. import sysobs as so
from ..sysdriver import gen_model
from ..tlc import MachineryError
from ..util import pmap, quiet, split

OPTS = {'storage': ['dense', 'rowscols', 'csc', 'fd', 'cs', 'matfree'], 'cyc_frac': .4, 'voi_scaling': True}
RO = ['ComputeTotals', 'JacVec', 'CheckPartials', 'CheckTotals', 'ComputeColoring', 'ListInputs', 'ListOutputs', 'GetVal']


def digest(p):
    """the visible state: all inputs and outputs (physical units)"""
    return np.concatenate([p.model._inputs.asarray().real.ravel(), p.model._outputs.asarray().real.ravel()]).copy()


def do_readonly(p, md, name, rng):
    from openmdao.utils import coloring as cm
    ofs = [ob.out_path(md, r['oid']) for r in md['responses']]
    wrts = [ob.out_path(md, d['oid']) for d in md['desvars']]
    if name == 'ComputeTotals':
        return np.array(p.compute_totals(return_format='array'))
    elif name == 'JacVec':
        mode = p._orig_mode if p._orig_mode in ('fwd', 'rev') else 'fwd'
        names = wrts if mode == 'fwd' else ofs
        oids = [d['oid'] for d in md['desvars']] if mode == 'fwd' else [r['oid'] for r in md['responses']]
        if len(set(ofs)) != len(ofs):
            return
        seed = {n: np.ones(md['outs'][o]['shape']) for n, o in zip(names, oids)}
        p.compute_jacvec_product(ofs, wrts, mode, seed, linearize=True)
    elif name == 'CheckPartials':
        p.check_partials(out_stream=None, method=rng.choice(['fd', 'cs']))
    elif name == 'CheckTotals':
        p.check_totals(out_stream=None, method=rng.choice(['fd', 'cs']))
    elif name == 'ComputeColoring':
        cm.compute_total_coloring(p, num_full_jacs=2)
    elif name == 'ListInputs':
        p.model.list_inputs(out_stream=None)
    elif name == 'ListOutputs':
        p.model.list_outputs(out_stream=None, residuals=True)
    elif name == 'GetVal':
        for o in md['outs']:
            p.get_val(ob.out_path(md, o['id']))
        for i in md['ins']:
            p.get_val(ob.in_path(md, i['id']))


def observe(seed):
    from openmdao.core.analysis_error import AnalysisError
    # half of the models carry solver scaling (ref / ref0 / res_ref): the checks enter and leave scaled contexts
    md, ref, rng = gen_model(seed, dict(OPTS, scaling=True) if seed % 2 else OPTS)
    if md is None or not md['desvars'] or not md['responses']:
        return {'skip': 'rejected'}
    states = []

    def did(x):
        # identity of a visible state: bit-equal, or equal up to the round-off of a scaling round trip (entering and
        # leaving a scaled context multiplies and divides by ref - ref0 and adds and subtracts ref0, |ref0| <= 20, so an
        # exact 0 may come back as 2e-15); a genuine change is many orders larger
        for k, y in enumerate(states):
            if y.shape == x.shape and (np.array_equal(x, y, equal_nan=True) or
                                       np.allclose(x, y, rtol=1e-12, atol=1e-11, equal_nan=True)):
                return k + 1
        states.append(x)
        return len(states)
    ev = []
    raised = []
    try:
        probs = []
        for k in range(2):
            cfg = {'mode': rng.choice(['fwd', 'rev']), 'force_alloc_complex': True}
            if seed % 3 == 0:
                # a declared total coloring whose sparsity is sampled with randomized seeds
                cfg.update(coloring='direct', randomize_seeds=True)
            p = ob.build(md, cfg)
            p.final_setup()
            probs.append(p)
        init = did(digest(probs[0]))
        if did(digest(probs[1])) != init:
            return {'exc': 'two problems built from the same description start in different states', 'tb': '', 'md': md}
        rngs = [random.Random(seed * 7 + k) for k in range(2)]
        # the common script of mutating calls
        script = []
        ivc = md['comps'][0]['outs']
        for step in range(rng.randrange(3, 6)):
            if rng.random() < .45:
                oid = rng.choice(ivc)
                n = int(np.prod(md['outs'][oid]['shape']))
                vals = [rng.randrange(-2, 3) for _ in range(n)]
                script.append(('SetVal', oid, vals))
            else:
                script.append(('RunModel', None, None))
        argids = {}
        results = []
        # every instance ends with a run and the derivative queries whose results are compared across the instances
        script.append(('RunModel', None, None))
        script.append(('End', None, None))
        for k, p in enumerate(probs):
            r = rngs[k]
            for (a, oid, vals) in script:
                # a different number / kind of read-only calls before each mutating call in each instance
                ro_calls = [r.choice(RO) for _ in range(r.randrange(0, 3))] if a != 'End' else ['ComputeTotals', 'ComputeTotals']
                for name in ro_calls:
                    pre = did(digest(p))
                    res = 0
                    try:
                        out = do_readonly(p, md, name, r)
                        if out is not None:
                            # result of the read-only call: equal results (1e-6) from the same visible state get the same id
                            for (pre0, J0, rid) in results:
                                if pre0 == pre and J0.shape == out.shape and np.allclose(J0, out, rtol=1e-6, atol=1e-9):
                                    res = rid
                                    break
                            else:
                                res = len(results) + 1
                                results.append((pre, out, res))
                    except AnalysisError:
                        raise
                    except Exception as e:
                        # a read-only call that raises is not what this property is about; it is counted and the
                        # state afterwards is still required to be unchanged
                        raised.append('%s: %s: %s' % (name, type(e).__name__, str(e)[:120]))
                    ev.append({'inst': k + 1, 'a': name, 'arg': 0, 'pre': pre, 'post': did(digest(p)), 'res': res})
                if a == 'End':
                    continue
                pre = did(digest(p))
                if a == 'SetVal':
                    p.set_val(ob.out_path(md, oid), np.array(vals, dtype=float).reshape(md['outs'][oid]['shape']))
                    arg = argids.setdefault((oid, tuple(vals)), len(argids) + 1)
                else:
                    p.run_model()
                    arg = 0
                ev.append({'inst': k + 1, 'a': a, 'arg': arg, 'pre': pre, 'post': did(digest(p)), 'res': 0})
    except AnalysisError:
        return {'skip': 'noconv'}
    except Exception as e:
        import traceback
        if raised:
            # a read-only call had raised before (e.g. a complex-step check on a solver that is not complex-safe): what
            # happens to the model after an exception is not what this property states; counted, not judged
            return {'skip': 'exception after a read-only call had raised: ' + raised[0][:80]}
        return {'exc': '%s: %s' % (type(e).__name__, e), 'tb': traceback.format_exc()[-1500:], 'md': md}
    return {'trace': {'ninst': 2, 'init': init, 'ev': ev, 'dyn': seed % 3 == 0}, 'md': md, 'seed': seed,
            'cyclic': bool(md.get('cycle')), 'nro': sum(1 for e in ev if e['a'] in RO), 'raised': raised}


def _worker(seeds):
    quiet()
    return [observe(s) for s in seeds]


def pred_complex_leftovers(scn, info):
    """run_model after a successful complex-step check raises UFuncTypeError in Subjac._apply_fwd_input (a sub-jacobian value
    left complex) under Newton with DirectSolver(assemble_jac=False); models with a BroydenSolver are NOT matched (that
    class was repaired: C31-broyden-complex-leftovers)"""
    obs = str(info.get('observed') or '')
    md = scn.get('model') or {}
    broyden = any((sv.get('nl') or {}).get('name') == 'broyden' for sv in (md.get('solvers') or {}).values())
    newton_direct = any((sv.get('nl') or {}).get('name') == 'newton' and (sv.get('ln') or {}).get('name') == 'direct'
                        and not (sv.get('ln') or {}).get('opts', {}).get('assemble_jac', True) for sv in (md.get('solvers') or {}).values())
    return "Cannot cast ufunc 'add' output from dtype('complex128') to dtype('float64')" in obs and newton_direct and not broyden


def pred_fd_implicit_stale_residuals(scn, info):
    """A finite-difference partial of an IMPLICIT component is (r(x+h) - r0)/h with r0 = the content of the residual vector
    at linearization time, which is stale after run_model (solve_nonlinear does not evaluate residuals); a call that
    evaluates them (check_partials) changes later totals by r0/h.  Matches: the result of compute_totals differs between
    two histories of the same visible state, the model has an implicit component with an fd-declared partial, and a
    check_partials precedes one of the two queries."""
    obs = info.get('observed') or {}
    if obs.get('verdict') != 'read-only-result-depends-on-history':
        return False
    md = scn.get('model') or {}
    has = any(c['kind'] in ('impl', 'bil') and any(st == 'fd' for row in c['storage'] for st in row) for c in md.get('comps', []))
    return has and any(e['a'] == 'CheckPartials' for e in scn.get('trace_prefix', []))


def run(ctx):
    quick = ctx.tier == 'quick'
    n = 90 if quick else 1200
    base = 11000027 * (1 + ctx.seed % 1000)
    ctx.register_predicates({'C31-fd-partial-of-implicit-component-stale-residual-baseline': pred_fd_implicit_stale_residuals,
                             'C31-subjac-complex-leftover-after-cs-check': pred_complex_leftovers})
    res = [r for rs in pmap(_worker, [c for c in split(list(range(base, base + n)), 48) if c]) for r in rs]
    for r in res:
        if 'exc' in r:
            ctx.violation({'model': r['md']}, 'API calls succeed', r['exc'], 'exception from OpenMDAO: ' + r['exc'].split(':')[0],
                          snippet=r['tb'])
    tr = [r for r in res if 'trace' in r]
    if not tr:
        raise MachineryError('no traces')
    path = ctx.write_json('traces.json', [r['trace'] for r in tr])
    cfg = ctx.write_cfg('OMProblem.cfg', 'INIT Init\nNEXT Next\nINVARIANT Functional\nINVARIANT Export\nPROPERTY ReadOnlyUnchanged\n')
    r = ctx.tlc_check('sys/OMProblem', cfg, env={'OM_TRACES': path}, timeout=1800, coverage=False)
    v = {e['tid']: e for e in r.exports('EXP')}
    if len(v) != len(tr):
        raise MachineryError('trace verdicts missing: %d of %d' % (len(v), len(tr)))
    nev = 0
    for k, t in enumerate(tr):
        e = v[k + 1]
        nev += len(t['trace']['ev'])
        ctx.note_nontrivial(t['seed'])
        if e['v'] == 'pre-state-mismatch':
            raise MachineryError('harness lost track of the state in trace %d' % t['seed'])
        if e['v'] != 'ok':
            bad = t['trace']['ev'][e['l'] - 2]
            ctx.violation({'seed': t['seed'], 'model': t['md'], 'trace_prefix': t['trace']['ev'][:e['l'] - 1]},
                          'accepted by OMProblem.tla', {'rejected_event': bad, 'verdict': e['v']},
                          '%s: %s' % (e['v'], bad['a']))
    ctx.impl = len(tr)
    ctx.evaluations = nev
    ctx.extra.update({'read_only_calls_that_raised': sorted(set(x for t in tr for x in t['raised']))[:10], 'events_validated': nev, 'read_only_calls': sum(t['nro'] for t in tr),
                      'cyclic_models': sum(1 for t in tr if t['cyclic'])})
    for t in tr[:2]:
        ctx.sample({'seed': t['seed'], 'events': t['trace']['ev'][:8]})
    ctx.rule = ('per generated model (FD/CS partials, matrix-free, cycles with Newton/NLBGS, scaling): two Problem instances, same 3-5 '
                'mutating calls, 0-2 random read-only calls before each; merged trace validated by TLC against OMProblem.tla; '
                'non-trivial = distinct models (each trace contains run_model calls from states reached through different '
                'read-only histories)')
    ctx.assumptions = ['visible state = bytes of the root input and output vectors (residuals are not part of the property)',
                       'bit-exact determinism with OMP/BLAS threads pinned to 1']
