"""C01, mechanism family "cache of linear solutions" (spec/mech/RhsCache.tla, RhsCacheTrace.tla).

1. TLC checks AnswerCorrect / CacheSound / Bounded / ScalingExact on the specification, and refutes the variant in which
   a re-linearisation does not clear the cache (so the invariants are not vacuous).
2. The real LinearRHSChecker is driven through the DirectSolver.solve protocol (get_solution; on a miss solve and
   add_solution) with random call sequences over small integer vectors; every call is an event (right-hand side, seed
   condition, what came back) and the whole trace must be a behaviour of the specification with the logged answers."""
import random

import numpy as np

from vf.core import MachineryError
from vf.util import quiet, pmap, split

VEC = [(a, b) for a in range(-2, 3) for b in range(-2, 3)]


def S(k, v):
    return (v[0] + 2 * v[1], 3 * v[1] - v[0]) if k == 1 else (2 * v[0] - v[1], v[0] + v[1])


class _Comm:
    size = 1


class _LS:
    msginfo = 'DirectSolver in <model>'


class _Rel:
    def get_redundant_adjoint_systems(self):
        return {'g': {'resp'}}


class _Sys:
    """the attributes LinearRHSChecker reads from its system"""
    def __init__(self):
        self.comm = _Comm()
        self.under_complex_step = False
        self.pathname = 'g'
        self.linear_solver = _LS()
        self._relevance = _Rel()
        self._problem_meta = {'ncompute_totals': 0, 'seed_vars': None, 'name': 'p'}


def one_trace(seed):
    from openmdao.solvers.linear.linear_rhs_checker import LinearRHSChecker
    rng = random.Random(seed)
    K = rng.choice([0, 1, 2, 3])
    cz = rng.random() < .5
    sysm = _Sys()
    chk = LinearRHSChecker(sysm, max_cache_entries=K, check_zero=cz)
    lin = 1
    ev = []
    pool = [rng.choice(VEC) for _ in range(3)]            # a few base vectors so that equal / negated / parallel ones recur
    for _ in range(rng.randrange(4, 13)):
        u = rng.random()
        if u < .12:
            sysm._problem_meta['ncompute_totals'] += 1
            ev.append({'a': 'totals'})
            continue
        if u < .2:
            lin = 3 - lin
            chk.clear()                                   # DirectSolver._linearize / ScipyKrylov._linearize
            ev.append({'a': 'relin'})
            continue
        b = rng.choice(pool)
        f = rng.choice([1, 1, -1, 2, -2, 0]) if rng.random() < .7 else None
        r = rng.choice(VEC) if f is None else (b[0] * f, b[1] * f)
        if max(abs(r[0]), abs(r[1])) > 2:
            r = b
        red = rng.random() < .8
        sysm._problem_meta['seed_vars'] = {'resp'} if red else {'other'}
        rhs = np.array(r, dtype=float)
        sol, is_zero = chk.get_solution(rhs, sysm)
        rec = {'a': 'solve', 'rhs': list(r), 'red': red, 'sol': [0, 0]}
        if is_zero:
            rec['ret'] = 'zero'
        elif sol is not None:
            q = np.rint(sol)
            if not np.all(np.abs(sol - q) <= 1e-9):
                q = np.array([10 ** 6, 10 ** 6])          # not an integer vector: no specification step explains it
            rec['ret'] = 'hit'
            rec['sol'] = [int(q[0]), int(q[1])]
        else:
            rec['ret'] = 'miss'
            x = np.array(S(lin, r), dtype=float)          # the linear solve itself
            chk.add_solution(rhs, x, sysm, copy=True)      # mode == 'rev', not under complex step
        ev.append(rec)
    return {'K': K, 'cz': cz, 'ev': ev, 'seed': seed}


def _worker(chunk):
    quiet()
    return [one_trace(s) for s in chunk]


MC_CFG = ('CONSTANTS K = %d\n CheckZero = %s\n ClearOnRelin = %s\n MaxTotals = %d\n MaxSolves = %d\nINIT Init\nNEXT Next\n'
          'INVARIANT AnswerCorrect\nINVARIANT CacheSound\nINVARIANT Bounded\nINVARIANT ScalingExact\n')


def run_rhs_cache(ctx):
    quick = ctx.tier == 'quick'
    # 1. the design
    for (k, cz) in ([(2, 'TRUE')] if quick else [(2, 'TRUE'), (1, 'FALSE'), (3, 'TRUE')]):
        cfg = ctx.write_cfg('RhsCache_%d_%s.cfg' % (k, cz), MC_CFG % (k, cz, 'TRUE', 1 if quick else 2, 3 if quick else 4))
        ctx.tlc_check('mech/RhsCache', cfg, timeout=3000, coverage=False)
    # refutation: without the clear on re-linearisation a stale solution is served
    cfg = ctx.write_cfg('RhsCache_noclear.cfg', MC_CFG % (2, 'TRUE', 'FALSE', 1, 3))
    r = ctx.tlc_run('mech/RhsCache', cfg, timeout=3000)
    if 'is violated' not in r.out:
        raise MachineryError('RhsCache: the variant without clear-on-relinearize is not refuted:\n' + r.tail(8))
    # 2. the code
    n = 600 if quick else 8000
    base = 4000000 + 1000003 * (ctx.seed % 1000)
    traces = [t for ts in pmap(_worker, [c for c in split(list(range(base, base + n)), 32) if c]) for t in ts]
    traces.sort(key=lambda t: t['seed'])
    best = {}
    classes = sorted(set((t['K'], t['cz']) for t in traces))
    for (k, cz) in classes:
        idx = [j for j, t in enumerate(traces) if (t['K'], t['cz']) == (k, cz)]
        tag = '%d_%s' % (k, 'z' if cz else 'n')
        path = ctx.write_json('rhs_traces_%s.json' % tag, [{'ev': traces[j]['ev']} for j in idx])
        cfg = ctx.write_cfg('RhsCacheTrace_%s.cfg' % tag,
                            'CONSTANTS K = %d\n CheckZero = %s\n MaxTotals = 100\n MaxSolves = 100\nINIT Init\nNEXT Next\n'
                            'INVARIANT Export\nINVARIANT AnswerCorrect\nINVARIANT CacheSound\n' % (k, 'TRUE' if cz else 'FALSE'))
        r = ctx.tlc_check('mech/RhsCacheTrace', cfg, env={'RHS_TRACES': path}, timeout=3000, heap='8g', coverage=False)
        for e in r.exports('EXP'):
            # the specification is nondeterministic on parallel right-hand sides: a trace is accepted if ANY branch consumes it
            j = idx[e['tid'] - 1] + 1
            b = best.get(j)
            if b is None or (e['v'] == 'ok' and b['v'] != 'ok') or (e['v'] == b['v'] and e['n'] > b['n']):
                best[j] = e
    if len(best) != len(traces):
        raise MachineryError('RhsCacheTrace returned %d verdicts for %d traces' % (len(best), len(traces)))
    nev = 0
    kinds = {'zero': 0, 'hit': 0, 'miss': 0}
    for k, t in enumerate(traces):
        v = best[k + 1]
        nev += v['n']
        for e in t['ev']:
            if e['a'] == 'solve':
                kinds[e['ret']] += 1
        if any(e.get('ret') == 'hit' for e in t['ev']):
            ctx.note_nontrivial('rhs%d' % t['seed'])
        if v['v'] != 'ok':
            bad = t['ev'][v['n']] if v['n'] < len(t['ev']) else None
            ctx.violation({'seed': t['seed'], 'K': t['K'], 'check_zero': t['cz'], 'events': t['ev']},
                          'an action of RhsCache.tla explains the event', {'event': v['n'] + 1, 'logged': bad},
                          '[linear-solution cache] trace rejected at event %d' % (v['n'] + 1))
    ctx.impl += len(traces)
    ctx.evaluations += nev
    ctx.extra['rhs_cache'] = {'traces': len(traces), 'events_validated': nev, 'returns': kinds}
    return len(traces), nev
