"""C11 - assembled Jacobian formats represent the same linear operator.

Spec: spec/mech/Jacobian.tla (+ JacobianMC.tla).  The global operator of a layout (an independent source plus two
components, sub-Jacobians of the kinds dense / rows-cols / diagonal / scipy coo (with a duplicated entry) / csr / csc,
inputs connected through src_indices with repeats and negative entries and a unit factor 1000) is the SUM of the
placed sub-Jacobians, Asm(values).  The spec carries one abstract representation per storage format (coo triplets,
csc / csr compressed data filled through an index map, dense array, matrix-free per-sub-Jacobian application with the
transfers) together with their update rules; TLC checks that after any history of Linearize / SetComplex / Apply every
representation denotes Asm(latest values) and yields Asm.v (fwd) and Asm^T.v (rev), complex vectors included.

Binding: TLC -simulate produces histories (depth 6) with the exact expected product after every Apply and the exact
matrix after every Linearize; each history is replayed on real Problems, one per storage format and placement of the
linear solver (whole model / sub-group with external inputs), through run_linearize, run_apply_linear and
set_complex_step_mode; the assembled matrices themselves are read back as well."""
import json
import os

import numpy as np

from ..tlc import MachineryError, to_tla
from ..util import pmap, quiet, split

ATOL = 1e-12
SRC_UNITS = {'km': 'km', 'none': None}

# (format, placement of the linear solver): 'top' = the whole model is assembled (only dr/do), 'sub' = the group g is
# assembled and the inputs fed by ivc are external to it (dr/di matrix + model-level transfers)
VARIANTS = [('dense', 'top'), ('dense', 'sub'), ('csc', 'top'), ('csc', 'sub'), ('csr', 'top'), ('csr', 'sub'),
            ('coo', 'sub'), ('dict', 'sub'), ('dict-direct', 'sub')]


# ---- the numbers shared with the spec (Jacobian.tla: Val, SeedRe/SeedIm) -----------------------------------------
def val(q, s, k):
    v = 1 + ((7 * s + 3 * k + 5 * q) % 7)
    return -v if (s + k + q) % 2 else v


def seed_vec(sd, n):
    v1 = np.array([((5 * j) % 7) - 3 for j in range(1, n + 1)], dtype=float)
    v2 = np.array([((3 * j) % 5) - 2 for j in range(1, n + 1)], dtype=float)
    return {1: v1 + 0j, 2: v2 + 0j, 3: v1 + 1j * v2, 4: v2 + 1j * v1}[sd]


# ---- layout helpers (a layout is the JSON image of the TLA+ record; references are 1-based) ----------------------
def out_offsets(L):
    offs, n = [], 0
    for o in L['outs']:
        offs.append(n)
        n += o['sz']
    return offs, n


def sub_shape(L, s):
    nr = L['outs'][s['of'] - 1]['sz']
    nc = L['ins'][s['wrt'][1] - 1]['sz'] if s['wrt'][0] == 'in' else L['outs'][s['wrt'][1] - 1]['sz']
    return nr, nc


def sub_pattern(L, s):
    nr, nc = sub_shape(L, s)
    if s['kind'] == 'dense':
        return [(r, c) for r in range(nr) for c in range(nc)]
    if s['kind'] == 'diag':
        return [(r, r) for r in range(nr)]
    return [tuple(rc) for rc in s['pat']]


def sub_dense(L, si, q):
    """the sub-Jacobian as the component states it (duplicates accumulate), no column map, no factor"""
    s = L['subs'][si]
    m = np.zeros(sub_shape(L, s))
    for k, (r, c) in enumerate(sub_pattern(L, s)):
        m[r, c] += val(q, si + 1, k + 1)
    return m


def ref_asm(L, q):
    """independent evaluation of the spec's Asm (cross-check of the TLC export)"""
    offs, n = out_offsets(L)
    A = np.zeros((n, n))
    for i, o in enumerate(L['outs']):
        if o['c'] not in L['impl']:
            for j in range(o['sz']):
                A[offs[i] + j, offs[i] + j] -= 1
    for si, s in enumerate(L['subs']):
        m = sub_dense(L, si, q)
        r0 = offs[s['of'] - 1]
        if s['wrt'][0] == 'out':
            c0 = offs[s['wrt'][1] - 1]
            A[r0:r0 + m.shape[0], c0:c0 + m.shape[1]] += m
        else:
            inp = L['ins'][s['wrt'][1] - 1]
            c0 = offs[inp['src'] - 1]
            ssz = L['outs'][inp['src'] - 1]['sz']
            idx = inp['idx'] if inp['idx'] else list(range(inp['sz']))
            for c in range(m.shape[1]):
                A[r0:r0 + m.shape[0], c0 + (idx[c] % ssz)] += inp['fac'] * m[:, c]
    return A


def comp_path(c):
    return 'ivc' if c == 0 else 'g.c%d' % c


def out_name(L, i):          # i is 1-based
    o = L['outs'][i - 1]
    return '%s.%s' % (comp_path(o['c']), o['n'])


def in_name(L, i):
    o = L['ins'][i - 1]
    return '%s.%s' % (comp_path(o['c']), o['n'])


def in_units(L, inp):
    su = L['outs'][inp['src'] - 1]['u']
    if inp['fac'] == 1000:
        return 'm'
    return SRC_UNITS[su]


# ---- the real model ------------------------------------------------------------------------------------------------
_CLS = None


def comp_classes():
    global _CLS
    if _CLS is not None:
        return _CLS
    import openmdao.api as om
    import scipy.sparse as sp

    def make_val(comp, si, q):
        L = comp.L
        s = L['subs'][si]
        pat = sub_pattern(L, s)
        data = np.array([val(q, si + 1, k + 1) for k in range(len(pat))], dtype=float)
        shape = sub_shape(L, s)
        kind = s['kind']
        if kind == 'dense':
            return data.reshape(shape)
        if kind in ('diag', 'rc'):
            return data
        rows = np.array([r for r, _ in pat], dtype=int)
        cols = np.array([c for _, c in pat], dtype=int)
        m = sp.coo_matrix((data, (rows, cols)), shape=shape)      # duplicates stay separate entries in coo
        return m if kind == 'coo' else getattr(m, 'to' + kind)()

    class Mixin:
        def _vf_init(self, L, c):
            self.L = L
            self.c = c
            self.q = 0
            self.mysubs = [si for si, s in enumerate(L['subs']) if L['outs'][s['of'] - 1]['c'] == c]

        def _vf_setup(self):
            L = self.L
            for inp in L['ins']:
                if inp['c'] == self.c:
                    self.add_input(inp['n'], val=np.ones(inp['sz']), units=in_units(L, inp))
            for o in L['outs']:
                if o['c'] == self.c:
                    self.add_output(o['n'], val=np.ones(o['sz']), units=SRC_UNITS[o['u']])
            for si in self.mysubs:
                s = L['subs'][si]
                of = L['outs'][s['of'] - 1]['n']
                wrt = (L['ins'] if s['wrt'][0] == 'in' else L['outs'])[s['wrt'][1] - 1]['n']
                v = make_val(self, si, 0)
                if s['kind'] == 'dense':
                    self.declare_partials(of, wrt, val=v)
                elif s['kind'] == 'diag':
                    self.declare_partials(of, wrt, diagonal=True, val=v)
                elif s['kind'] == 'rc':
                    pat = sub_pattern(L, s)
                    self.declare_partials(of, wrt, rows=[r for r, _ in pat], cols=[c for _, c in pat], val=v)
                else:
                    self.declare_partials(of, wrt, val=v)

        def _vf_fill(self, partials):
            L = self.L
            for si in self.mysubs:
                s = L['subs'][si]
                of = L['outs'][s['of'] - 1]['n']
                wrt = (L['ins'] if s['wrt'][0] == 'in' else L['outs'])[s['wrt'][1] - 1]['n']
                partials[of, wrt] = make_val(self, si, self.q)

    class EC(Mixin, om.ExplicitComponent):
        def __init__(self, L, c):
            super().__init__()
            self._vf_init(L, c)

        def setup(self):
            self._vf_setup()

        def compute(self, inputs, outputs):
            pass

        def compute_partials(self, inputs, partials):
            self._vf_fill(partials)

    class IC(Mixin, om.ImplicitComponent):
        def __init__(self, L, c):
            super().__init__()
            self._vf_init(L, c)

        def setup(self):
            self._vf_setup()

        def apply_nonlinear(self, inputs, outputs, residuals):
            pass

        def linearize(self, inputs, outputs, partials):
            self._vf_fill(partials)

    _CLS = (EC, IC)
    return _CLS


class NotApplicable(Exception):
    pass


class Real:
    """A real Problem realising layout L with storage format / solver placement `variant`."""

    def __init__(self, L, variant):
        import openmdao.api as om
        EC, IC = comp_classes()
        fmt, place = variant
        self.L, self.fmt, self.place = L, fmt, place
        p = self.p = om.Problem()
        m = p.model
        ivc = om.IndepVarComp()
        for o in L['outs']:
            if o['c'] == 0:
                ivc.add_output(o['n'], val=np.ones(o['sz']), units=SRC_UNITS[o['u']])
        m.add_subsystem('ivc', ivc)
        g = m.add_subsystem('g', om.Group())
        self.comps = []
        for c in sorted({o['c'] for o in L['outs']} - {0}):
            comp = (IC if c in L['impl'] else EC)(L, c)
            g.add_subsystem('c%d' % c, comp)
            self.comps.append(comp)
        for i, inp in enumerate(L['ins']):
            kw = {}
            if inp['idx']:
                kw['src_indices'] = list(inp['idx'])
            m.connect(out_name(L, inp['src']), in_name(L, i + 1), **kw)
        self.owner = owner = m if place == 'top' else g
        # a gradient-based nonlinear solver is what makes OpenMDAO allocate complex LINEAR vectors (it is never run)
        owner.nonlinear_solver = om.NewtonSolver(solve_subsystems=False)
        if fmt in ('dense', 'csc'):
            owner.linear_solver = om.DirectSolver(assemble_jac=True)
            owner.options['assembled_jac_type'] = fmt
        elif fmt in ('csr', 'coo'):
            owner.linear_solver = om.ScipyKrylov(assemble_jac=True)
            owner.options['assembled_jac_type'] = 'csr'
        elif fmt == 'dict':
            owner.linear_solver = om.LinearRunOnce()
        elif fmt == 'dict-direct':
            owner.linear_solver = om.DirectSolver(assemble_jac=False)
        else:
            raise MachineryError('unknown format %r' % fmt)
        p.setup(force_alloc_complex=True)
        p.final_setup()
        if fmt == 'coo':
            # no option selects the COO matrix class; it is the base of CSC/CSR and is exercised by installing a
            # SplitJacobian built on it where the group's assembled Jacobian goes
            from openmdao.jacobians.jacobian import SplitJacobian
            from openmdao.matrices.coo_matrix import COOMatrix
            j = SplitJacobian(COOMatrix, system=owner)
            owner._assembled_jac = owner._jacobian = j
            owner._linear_solver._assembled_jac = j
        self.cplx = False
        # spec position -> position in the root vectors
        offs, n = out_offsets(L)
        self.n = n
        self.perm = np.zeros(n, dtype=int)
        for i in range(len(L['outs'])):
            a, b = m._doutputs._views[out_name(L, i + 1)].range
            if b - a != L['outs'][i]['sz']:
                raise MachineryError('size mismatch for %s' % out_name(L, i + 1))
            self.perm[offs[i]:offs[i] + b - a] = np.arange(a, b)

    def step(self, ev):
        p, m = self.p, self.p.model
        a = ev['a']
        if a == 'Linearize':
            for c in self.comps:
                c.q = ev['q']
            m.run_linearize()
            return None
        if a == 'SetComplex':
            p.set_complex_step_mode(bool(ev['b']))
            self.cplx = bool(ev['b'])
            return None
        if a == 'Apply':
            v = seed_vec(ev['sd'], self.n)
            if not self.cplx:
                v = v.real
            full = np.zeros(self.n, dtype=v.dtype)
            full[self.perm] = v
            m._dinputs.set_val(0.0)
            if ev['mode'] == 'fwd':
                m._dresiduals.set_val(0.0)
                m._doutputs.set_val(full)
                m.run_apply_linear('fwd')
                res = m._dresiduals.asarray(copy=True)
            else:
                m._doutputs.set_val(0.0)
                m._dresiduals.set_val(full)
                m.run_apply_linear('rev')
                res = m._doutputs.asarray(copy=True)
            return res[self.perm]
        raise MachineryError('unknown action %r' % (ev,))

    def matrices(self, A, q):
        """[(label, observed, expected)] for the assembled matrices of the owner (nothing for matrix-free)"""
        L, S = self.L, self.owner
        j = S._assembled_jac
        if j is None:
            return []
        out = []
        offs, n = out_offsets(L)
        pre = S.pathname + '.' if S.pathname else ''
        # spec indices of the owner's outputs in the owner's own order
        mine = []
        for name, info in S._outputs._views.items():
            i = [k for k in range(len(L['outs'])) if out_name(L, k + 1) == name][0]
            mine.extend(range(offs[i], offs[i] + L['outs'][i]['sz']))
        mine = np.array(mine, dtype=int)
        if j._dr_do_mtx is not None:
            got = np.asarray(j._dr_do_mtx.todense())
            out.append(('dr/do', got, A[np.ix_(mine, mine)]))
        want = np.zeros((len(mine), len(S._inputs)))
        pos = {int(g): k for k, g in enumerate(mine)}
        anyext = False
        for si, s in enumerate(L['subs']):
            if s['wrt'][0] != 'in':
                continue
            inp = L['ins'][s['wrt'][1] - 1]
            if out_name(L, inp['src']) in S._outputs._views or not in_name(L, s['wrt'][1]).startswith(pre):
                continue
            anyext = True
            r0 = pos[offs[s['of'] - 1]]
            a, b = S._inputs._views[in_name(L, s['wrt'][1])].range
            blk = sub_dense(L, si, q)
            want[r0:r0 + blk.shape[0], a:b] += blk
        if j._dr_di_mtx is not None:
            out.append(('dr/di', np.asarray(j._dr_di_mtx.todense()), want))
        elif anyext:
            out.append(('dr/di', np.zeros((0, 0)), want))
        return out


DEMO_LAYOUT = None
