"""C11 - assembled Jacobian formats represent the same linear operator.

Spec: spec/mech/Jacobian.tla (+ JacobianMC.tla).  The global operator of a layout (an independent source plus two
components, sub-Jacobians of the kinds dense / rows-cols / diagonal / scipy coo (with a duplicated entry) / csr / csc,
inputs connected through src_indices with repeats and negative entries and a unit factor 1000) is the SUM of the
placed sub-Jacobians, Asm(values).  The spec carries one abstract representation per storage format (coo triplets,
csc / csr compressed data filled through an index map, dense array, matrix-free per-sub-Jacobian application with the
transfers) together with their update rules; TLC checks that after any history of Linearize / SetComplex / Apply every
representation denotes Asm(latest values) and yields Asm.v (fwd) and Asm^T.v (rev), complex vectors included.

Binding: TLC -simulate produces histories (depth 6) with the exact expected product after every Apply and the exact
matrix after every Linearize; each history is replayed on real Problems, one per storage format and placement of the
linear solver (whole model / sub-group with external inputs), through run_linearize, run_apply_linear and
set_complex_step_mode; the assembled matrices themselves are read back as well."""
import json
import os

import numpy as np

from ..tlc import MachineryError, to_tla
from ..util import pmap, quiet, split

ATOL = 1e-12
SRC_UNITS = {'km': 'km', 'none': None}

# (format, placement of the linear solver): 'top' = the whole model is assembled (only dr/do), 'sub' = the group g is
# assembled and the inputs fed by ivc are external to it (dr/di matrix + model-level transfers)
VARIANTS = [('dense', 'top'), ('dense', 'sub'), ('csc', 'top'), ('csc', 'sub'), ('csr', 'top'), ('csr', 'sub'),
            ('coo', 'sub'), ('dict', 'sub'), ('dict-direct', 'sub')]


# ---- the numbers shared with the spec (Jacobian.tla: Val, SeedRe/SeedIm) -----------------------------------------
def val(q, s, k):
    v = 1 + ((7 * s + 3 * k + 5 * q) % 7)
    return -v if (s + k + q) % 2 else v


def seed_vec(sd, n):
    v1 = np.array([((5 * j) % 7) - 3 for j in range(1, n + 1)], dtype=float)
    v2 = np.array([((3 * j) % 5) - 2 for j in range(1, n + 1)], dtype=float)
    return {1: v1 + 0j, 2: v2 + 0j, 3: v1 + 1j * v2, 4: v2 + 1j * v1}[sd]


# ---- layout helpers (a layout is the JSON image of the TLA+ record; references are 1-based) ----------------------
def out_offsets(L):
    offs, n = [], 0
    for o in L['outs']:
        offs.append(n)
        n += o['sz']
    return offs, n


def sub_shape(L, s):
    nr = L['outs'][s['of'] - 1]['sz']
    nc = L['ins'][s['wrt']['i'] - 1]['sz'] if s['wrt']['k'] == 'in' else L['outs'][s['wrt']['i'] - 1]['sz']
    return nr, nc


def sub_pattern(L, s):
    nr, nc = sub_shape(L, s)
    if s['kind'] == 'dense':
        return [(r, c) for r in range(nr) for c in range(nc)]
    if s['kind'] == 'diag':
        return [(r, r) for r in range(nr)]
    return [tuple(rc) for rc in s['pat']]


def sub_dense(L, si, q):
    """the sub-Jacobian as the component states it (duplicates accumulate), no column map, no factor"""
    s = L['subs'][si]
    m = np.zeros(sub_shape(L, s))
    for k, (r, c) in enumerate(sub_pattern(L, s)):
        m[r, c] += val(q, si + 1, k + 1)
    return m


def ref_asm(L, q):
    """independent evaluation of the spec's Asm (cross-check of the TLC export)"""
    offs, n = out_offsets(L)
    A = np.zeros((n, n))
    for i, o in enumerate(L['outs']):
        if o['c'] not in L['impl']:
            for j in range(o['sz']):
                A[offs[i] + j, offs[i] + j] -= 1
    for si, s in enumerate(L['subs']):
        m = sub_dense(L, si, q)
        r0 = offs[s['of'] - 1]
        if s['wrt']['k'] == 'out':
            c0 = offs[s['wrt']['i'] - 1]
            A[r0:r0 + m.shape[0], c0:c0 + m.shape[1]] += m
        else:
            inp = L['ins'][s['wrt']['i'] - 1]
            c0 = offs[inp['src'] - 1]
            ssz = L['outs'][inp['src'] - 1]['sz']
            idx = inp['idx'] if inp['idx'] else list(range(inp['sz']))
            for c in range(m.shape[1]):
                A[r0:r0 + m.shape[0], c0 + (idx[c] % ssz)] += inp['fac'] * m[:, c]
    return A


def comp_path(c):
    return 'ivc' if c == 0 else 'g.c%d' % c


def out_name(L, i):          # i is 1-based
    o = L['outs'][i - 1]
    return '%s.%s' % (comp_path(o['c']), o['n'])


def in_name(L, i):
    o = L['ins'][i - 1]
    return '%s.%s' % (comp_path(o['c']), o['n'])


def in_units(L, inp):
    su = L['outs'][inp['src'] - 1]['u']
    if inp['fac'] == 1000:
        return 'm'
    return SRC_UNITS[su]


# ---- the real model ------------------------------------------------------------------------------------------------
_CLS = None


def comp_classes():
    global _CLS
    if _CLS is not None:
        return _CLS
    import openmdao.api as om
    import scipy.sparse as sp

    def make_val(comp, si, q):
        L = comp.L
        s = L['subs'][si]
        pat = sub_pattern(L, s)
        data = np.array([val(q, si + 1, k + 1) for k in range(len(pat))], dtype=float)
        shape = sub_shape(L, s)
        kind = s['kind']
        if kind == 'dense':
            return data.reshape(shape)
        if kind in ('diag', 'rc'):
            return data
        rows = np.array([r for r, _ in pat], dtype=int)
        cols = np.array([c for _, c in pat], dtype=int)
        m = sp.coo_matrix((data, (rows, cols)), shape=shape)      # duplicates stay separate entries in coo
        return m if kind == 'coo' else getattr(m, 'to' + kind)()

    class Mixin:
        def _vf_init(self, L, c):
            self.L = L
            self.c = c
            self.q = 0
            self.mysubs = [si for si, s in enumerate(L['subs']) if L['outs'][s['of'] - 1]['c'] == c]

        def _vf_setup(self):
            L = self.L
            for inp in L['ins']:
                if inp['c'] == self.c:
                    self.add_input(inp['n'], val=np.ones(inp['sz']), units=in_units(L, inp))
            for o in L['outs']:
                if o['c'] == self.c:
                    self.add_output(o['n'], val=np.ones(o['sz']), units=SRC_UNITS[o['u']])
            for si in self.mysubs:
                s = L['subs'][si]
                of = L['outs'][s['of'] - 1]['n']
                wrt = (L['ins'] if s['wrt']['k'] == 'in' else L['outs'])[s['wrt']['i'] - 1]['n']
                v = make_val(self, si, 0)
                if s['kind'] == 'dense':
                    self.declare_partials(of, wrt, val=v)
                elif s['kind'] == 'diag':
                    self.declare_partials(of, wrt, diagonal=True, val=v)
                elif s['kind'] == 'rc':
                    pat = sub_pattern(L, s)
                    self.declare_partials(of, wrt, rows=[r for r, _ in pat], cols=[c for _, c in pat], val=v)
                else:
                    self.declare_partials(of, wrt, val=v)

        def _vf_fill(self, partials):
            L = self.L
            for si in self.mysubs:
                s = L['subs'][si]
                of = L['outs'][s['of'] - 1]['n']
                wrt = (L['ins'] if s['wrt']['k'] == 'in' else L['outs'])[s['wrt']['i'] - 1]['n']
                partials[of, wrt] = make_val(self, si, self.q)

    class EC(Mixin, om.ExplicitComponent):
        def __init__(self, L, c):
            super().__init__()
            self._vf_init(L, c)

        def setup(self):
            self._vf_setup()

        def compute(self, inputs, outputs):
            pass

        def compute_partials(self, inputs, partials):
            self._vf_fill(partials)

    class IC(Mixin, om.ImplicitComponent):
        def __init__(self, L, c):
            super().__init__()
            self._vf_init(L, c)

        def setup(self):
            self._vf_setup()

        def apply_nonlinear(self, inputs, outputs, residuals):
            pass

        def linearize(self, inputs, outputs, partials):
            self._vf_fill(partials)

    _CLS = (EC, IC)
    return _CLS


class NotApplicable(Exception):
    pass


MATRIX_CLASS = {'dense': 'DenseMatrix', 'csc': 'CSCMatrix', 'csr': 'CSRMatrix', 'coo': 'COOMatrix'}


def owner_indices(L, place):
    """spec positions of the outputs owned by the assembling system"""
    offs, n = out_offsets(L)
    return [j for k, o in enumerate(L['outs']) if place == 'top' or o['c'] != 0 for j in range(offs[k], offs[k] + o['sz'])]


def nonsingular(L, place, nq):
    idx = owner_indices(L, place)
    return all(abs(np.linalg.det(ref_asm(L, q)[np.ix_(idx, idx)])) > 1e-6 for q in range(0, nq + 1))


class Real:
    """A real Problem realising layout L with storage format / solver placement `variant`."""

    def __init__(self, L, variant, nq=2):
        import openmdao.api as om
        EC, IC = comp_classes()
        fmt, place = variant
        self.L, self.fmt, self.place = L, fmt, place
        p = self.p = om.Problem()
        m = p.model
        ivc = om.IndepVarComp()
        for o in L['outs']:
            if o['c'] == 0:
                ivc.add_output(o['n'], val=np.ones(o['sz']), units=SRC_UNITS[o['u']])
        m.add_subsystem('ivc', ivc)
        g = m.add_subsystem('g', om.Group())
        self.comps = []
        for c in sorted({o['c'] for o in L['outs']} - {0}):
            comp = (IC if c in L['impl'] else EC)(L, c)
            g.add_subsystem('c%d' % c, comp)
            self.comps.append(comp)
        for i, inp in enumerate(L['ins']):
            kw = {}
            if inp['idx']:
                kw['src_indices'] = list(inp['idx'])
            m.connect(out_name(L, inp['src']), in_name(L, i + 1), **kw)
        self.owner = owner = m if place == 'top' else g
        # a gradient-based nonlinear solver is what makes OpenMDAO allocate complex LINEAR vectors (it is never run)
        owner.nonlinear_solver = om.NewtonSolver(solve_subsystems=False)
        self.solver = None
        if fmt in ('dense', 'csc'):
            # DirectSolver factorises at every linearisation and refuses singular matrices; an iterative solver that
            # only holds the assembled Jacobian is used for those layouts
            if nonsingular(L, place, nq):
                owner.linear_solver = om.DirectSolver(assemble_jac=True)
                self.solver = 'DirectSolver'
            else:
                owner.linear_solver = om.ScipyKrylov(assemble_jac=True)
                self.solver = 'ScipyKrylov'
            owner.options['assembled_jac_type'] = fmt
        elif fmt in ('csr', 'coo'):
            owner.linear_solver = om.ScipyKrylov(assemble_jac=True)       # DirectSolver refuses a csr matrix
            owner.options['assembled_jac_type'] = 'csr'
            self.solver = 'ScipyKrylov'
        elif fmt == 'dict':
            owner.linear_solver = om.LinearRunOnce()
            self.solver = 'LinearRunOnce'
        elif fmt == 'dict-direct':
            if not nonsingular(L, place, nq):
                raise NotApplicable('DirectSolver(assemble_jac=False) needs a nonsingular group matrix')
            owner.linear_solver = om.DirectSolver(assemble_jac=False)
            self.solver = 'DirectSolver(assemble_jac=False)'
        else:
            raise MachineryError('unknown format %r' % fmt)
        self._patched = None
        if fmt == 'coo':
            # no option selects the COO matrix class (it is the base of CSC/CSR): while this Problem lives, the 'csr'
            # entry of the table System._get_assembled_jac reads is a SplitJacobian built on COOMatrix
            import openmdao.core.system as osys
            from openmdao.jacobians.jacobian import SplitJacobian
            from openmdao.matrices.coo_matrix import COOMatrix

            class COOJacobian(SplitJacobian):
                def __init__(self, system):
                    super().__init__(COOMatrix, system=system)

            self._patched = (osys._asm_jac_types, osys._asm_jac_types['csr'])
            osys._asm_jac_types['csr'] = COOJacobian
        try:
            try:
                p.setup(force_alloc_complex=True)
            except RuntimeError as e:
                if L.get('rcdup') and 'duplicate subjacobian entries' in str(e):
                    raise NotApplicable('declare_partials refuses duplicated rows/cols entries')
                raise
            p.final_setup()
        except BaseException:
            self.close()
            raise
        self.cplx = False
        # spec position -> position in the root vectors
        offs, n = out_offsets(L)
        self.n = n
        self.perm = np.zeros(n, dtype=int)
        for i in range(len(L['outs'])):
            a, b = m._doutputs._views[out_name(L, i + 1)].range
            if b - a != L['outs'][i]['sz']:
                raise MachineryError('size mismatch for %s' % out_name(L, i + 1))
            self.perm[offs[i]:offs[i] + b - a] = np.arange(a, b)

    def close(self):
        if self._patched is not None:
            self._patched[0]['csr'] = self._patched[1]
            self._patched = None

    def step(self, ev):
        p, m = self.p, self.p.model
        a = ev['a']
        if a == 'Linearize':
            for c in self.comps:
                c.q = ev['q']
            m.run_linearize()
            return None
        if a == 'SetComplex':
            p.set_complex_step_mode(bool(ev['b']))
            self.cplx = bool(ev['b'])
            return None
        if a == 'Apply':
            v = seed_vec(ev['sd'], self.n)
            if not self.cplx:
                v = v.real
            full = np.zeros(self.n, dtype=v.dtype)
            full[self.perm] = v
            m._dinputs.set_val(0.0)
            if ev['mode'] == 'fwd':
                m._dresiduals.set_val(0.0)
                m._doutputs.set_val(full)
                m.run_apply_linear('fwd')
                res = m._dresiduals.asarray(copy=True)
            else:
                m._doutputs.set_val(0.0)
                m._dresiduals.set_val(full)
                m.run_apply_linear('rev')
                res = m._doutputs.asarray(copy=True)
            return res[self.perm]
        raise MachineryError('unknown action %r' % (ev,))

    def matrices(self, A, q):
        """[(label, observed, expected, spec rows)] for the assembled matrices of the owner (none if matrix-free)"""
        L, S = self.L, self.owner
        j = S._assembled_jac
        if j is None:
            if self.fmt in MATRIX_CLASS:
                raise MachineryError('no assembled Jacobian in variant %s' % self.fmt)
            return []
        for mtx in (j._dr_do_mtx,):
            if mtx is not None and type(mtx).__name__ != MATRIX_CLASS.get(self.fmt):
                raise MachineryError('variant %s runs on %s' % (self.fmt, type(mtx).__name__))
        out = []
        offs, n = out_offsets(L)
        pre = S.pathname + '.' if S.pathname else ''
        names = [out_name(L, k + 1) for k in range(len(L['outs']))]
        mine = []
        for name in S._outputs._views:
            i = names.index(name)
            mine.extend(range(offs[i], offs[i] + L['outs'][i]['sz']))
        mine = np.array(mine, dtype=int)
        if j._dr_do_mtx is not None:
            out.append(('dr/do', np.asarray(j._dr_do_mtx.todense()), A[np.ix_(mine, mine)], mine))
        want = np.zeros((len(mine), len(S._inputs)))
        pos = {int(g): k for k, g in enumerate(mine)}
        anyext = False
        for si, s in enumerate(L['subs']):
            if s['wrt']['k'] != 'in':
                continue
            inp = L['ins'][s['wrt']['i'] - 1]
            if out_name(L, inp['src']) in S._outputs._views or not in_name(L, s['wrt']['i']).startswith(pre):
                continue
            anyext = True
            r0 = pos[offs[s['of'] - 1]]
            a, b = S._inputs._views[in_name(L, s['wrt']['i'])].range
            blk = sub_dense(L, si, q)
            want[r0:r0 + blk.shape[0], a:b] += blk
        if j._dr_di_mtx is not None:
            out.append(('dr/di', np.asarray(j._dr_di_mtx.todense()), want, mine))
        elif anyext:
            out.append(('dr/di', np.zeros((0, 0)), want, mine))
        return out


def close(got, want):
    got, want = np.asarray(got), np.asarray(want)
    return got.shape == want.shape and bool(np.all(np.abs(got - want) <= ATOL * (1.0 + np.abs(want))))


def cplx_list(v):
    v = np.asarray(v)
    if np.iscomplexobj(v) and np.any(v.imag != 0):
        return [[float(x.real), float(x.imag)] for x in v.ravel()]
    return [float(x) for x in np.real(v).ravel()]


def replay(L, variant, hist, nq=2):
    """run one history on one variant; stop at the first disagreement.
    -> {'status': 'ok' | 'na' | 'fail', 'steps': number of actions executed, 'fail': {...}, 'solver': ..}"""
    import traceback
    try:
        R = Real(L, tuple(variant), nq)
    except NotApplicable as e:
        return {'status': 'na', 'why': str(e), 'steps': 0}
    try:
        return _replay(R, hist)
    finally:
        R.close()


def _replay(R, hist):
    import traceback
    q = 0
    cplx = False
    for k, ev in enumerate(hist):
        try:
            out = R.step(ev)
        except MachineryError:
            raise
        except Exception as e:
            fr = traceback.extract_tb(e.__traceback__)[-1]
            return {'status': 'fail', 'steps': k, 'solver': R.solver, 'fail': {
                'step': k, 'ev': {x: ev[x] for x in ev if x not in ('asm', 're', 'im')}, 'cplx': cplx, 'kind': 'raised',
                'clause': '%s raised %s' % (ev['a'], type(e).__name__),
                'exc': type(e).__name__, 'msg': str(e)[:300], 'file': os.path.basename(fr.filename), 'func': fr.name,
                'line': fr.lineno, 'expected': 'accepted', 'observed': '%s: %s' % (type(e).__name__, str(e)[:300])}}
        if ev['a'] == 'SetComplex':
            cplx = bool(ev['b'])
        elif ev['a'] == 'Linearize':
            q = ev['q']
            A = np.array(ev['asm'], dtype=float)
            for label, got, want, rows in R.matrices(A, q):
                if not close(got, want):
                    bad = []
                    if got.shape == want.shape:
                        bi, bj = np.nonzero(np.abs(got - want) > ATOL * (1.0 + np.abs(want)))
                        bad = [[int(rows[i]), int(j)] for i, j in zip(bi, bj)]
                    return {'status': 'fail', 'steps': k + 1, 'solver': R.solver, 'fail': {
                        'step': k, 'ev': {'a': 'Linearize', 'q': q}, 'cplx': cplx, 'kind': 'matrix', 'which': label,
                        'clause': 'assembled %s matrix after Linearize differs from Asm(latest values)' % label,
                        'bad_rows': sorted({b[0] for b in bad}), 'ncells': len(bad),
                        'expected': want.tolist(), 'observed': np.real(got).tolist() if got.size else 'no matrix'}}
        elif ev['a'] == 'Apply':
            want = np.array(ev['re'], dtype=float) + 1j * np.array(ev['im'], dtype=float)
            if not close(out, want):
                bad = [int(i) for i in np.nonzero(np.abs(out - want) > ATOL * (1.0 + np.abs(want)))[0]]
                return {'status': 'fail', 'steps': k + 1, 'solver': R.solver, 'fail': {
                    'step': k, 'ev': {x: ev[x] for x in ('a', 'mode', 'sd')}, 'cplx': cplx, 'kind': 'product',
                    'clause': 'product in %s mode differs from %s' % (ev['mode'], 'Asm.v' if ev['mode'] == 'fwd' else 'Asm^T.v'),
                    'bad_rows': bad, 'expected': cplx_list(want), 'observed': cplx_list(out)}}
    return {'status': 'ok', 'steps': len(hist), 'solver': R.solver}


def _worker(jobs):
    quiet()
    out = []
    for L, variant, hist, nq in jobs:
        out.append(replay(L, variant, hist, nq))
    return out


# ---- recognisers of the defects found with this check (for known_findings.json) ------------------------------------
def has_kind(L, kind):
    return any(s['kind'] == kind for s in L['subs'])


def factor_conflict_rows(L):
    """spec rows (0-based positions of `of` variables) of blocks (of, source) that hold a DENSE sub-Jacobian read through
    src_indices with a unit factor together with another sub-Jacobian of the same (of, source) block"""
    offs, n = out_offsets(L)
    rows = set()
    for si, s in enumerate(L['subs']):
        if s['kind'] != 'dense' or s['wrt']['k'] != 'in':
            continue
        inp = L['ins'][s['wrt']['i'] - 1]
        if inp['fac'] == 1 or not inp['idx']:
            continue
        for sj, t in enumerate(L['subs']):
            if sj == si or t['of'] != s['of']:
                continue
            tsrc = L['ins'][t['wrt']['i'] - 1]['src'] if t['wrt']['k'] == 'in' else t['wrt']['i']
            if tsrc == inp['src']:
                rows.update(range(offs[s['of'] - 1], offs[s['of'] - 1] + L['outs'][s['of'] - 1]['sz']))
    return rows


def src_cols(L):
    """positions of source variables of the conflicting blocks"""
    offs, n = out_offsets(L)
    cols = set()
    for s in L['subs']:
        if s['kind'] == 'dense' and s['wrt']['k'] == 'in':
            inp = L['ins'][s['wrt']['i'] - 1]
            if inp['fac'] != 1 and inp['idx']:
                cols.update(range(offs[inp['src'] - 1], offs[inp['src'] - 1] + L['outs'][inp['src'] - 1]['sz']))
    return cols


def pred_coo_set_dtype(scn, info):
    """a scipy COO sub-Jacobian cannot change dtype: Linearize under complex step raises in COOSubjac.set_dtype"""
    f = scn['failed']
    return (f['kind'] == 'raised' and f['ev']['a'] == 'Linearize' and f['exc'] == 'TypeError' and f['file'] == 'subjac.py'
            and f['func'] == 'set_dtype' and has_kind(scn['layout'], 'coo'))


def pred_rowscols_bincount(scn, info):
    """a rows/cols sub-Jacobian is applied with np.bincount, which refuses complex weights"""
    f = scn['failed']
    return (f['kind'] == 'raised' and f['cplx'] and f['exc'] == 'TypeError' and f['file'] == 'subjac.py'
            and f['func'].startswith('_apply_') and 'complex128' in f['msg'] and has_kind(scn['layout'], 'rc')
            and scn['variant'][0] in ('dict', 'dict-direct'))


def pred_rev_transfer_bincount(scn, info):
    """the reverse transfer scatters with np.bincount, which refuses complex weights"""
    f = scn['failed']
    return (f['kind'] == 'raised' and f['cplx'] and f['exc'] == 'TypeError' and f['file'] == 'default_transfer.py'
            and f['func'] == '_transfer' and 'complex128' in f['msg'] and f['ev'].get('mode') == 'rev')


def pred_dense_factor_block(scn, info):
    """DenseMatrix scales the whole (of, source) block by the unit factor of one dense sub-Jacobian"""
    f = scn['failed']
    L = scn['layout']
    if scn['variant'][0] != 'dense' or f['kind'] not in ('matrix', 'product'):
        return False
    rows = factor_conflict_rows(L)
    if not rows:
        return False
    if f['kind'] == 'matrix':
        return f.get('which') == 'dr/do' and bool(f['bad_rows']) and set(f['bad_rows']) <= rows
    if f['ev']['mode'] == 'fwd':
        return bool(f['bad_rows']) and set(f['bad_rows']) <= rows
    return bool(f['bad_rows']) and set(f['bad_rows']) <= src_cols(L)


PREDICATES = {'C11-coo-subjac-set-dtype': pred_coo_set_dtype,
              'C11-rowscols-bincount-complex': pred_rowscols_bincount,
              'C11-rev-transfer-bincount-complex': pred_rev_transfer_bincount,
              'C11-dense-matrix-factor-block': pred_dense_factor_block}


def classify(scn):
    for k, pr in PREDICATES.items():
        try:
            if pr(scn, {}):
                return k
        except Exception:
            pass
    return 'unclassified'


# ---- random layouts --------------------------------------------------------------------------------------------------
def gen_layout(rnd, name):
    KINDS = ['dense', 'rc', 'diag', 'coo', 'csr', 'csc']
    while True:
        outs, ins = [], []
        for c in (0, 1, 2):
            for k in range(rnd.choice((1, 1, 2)) if c == 0 else rnd.choice((1, 2))):
                outs.append({'c': c, 'n': 'o%d' % (k + 1), 'sz': rnd.randint(1, 3), 'u': rnd.choice(('km', 'none'))})
        if sum(o['sz'] for o in outs) > 12:
            continue
        for c in (1, 2):
            for k in range(rnd.randint(1, 3)):
                cand = [i + 1 for i, o in enumerate(outs) if o['c'] != c]
                src = rnd.choice(cand)
                ssz = outs[src - 1]['sz']
                form = rnd.choice(('full', 'idx', 'idx', 'neg'))
                if form == 'full':
                    sz, idx = ssz, []
                else:
                    sz = rnd.randint(1, 3)
                    lo = -ssz if form == 'neg' else 0
                    idx = [rnd.randint(lo, ssz - 1) for _ in range(sz)]
                fac = rnd.choice((1, 1000)) if outs[src - 1]['u'] == 'km' else 1
                ins.append({'c': c, 'n': 'i%d' % (k + 1), 'sz': sz, 'src': src, 'idx': idx, 'fac': fac})
        impl = sorted(c for c in (1, 2) if rnd.random() < 0.5)
        subs = []
        for oi, o in enumerate(outs):
            if o['c'] == 0:
                continue
            wrts = [('in', ii + 1, inp['sz']) for ii, inp in enumerate(ins) if inp['c'] == o['c']]
            if o['c'] in impl:
                wrts += [('out', oj + 1, p['sz']) for oj, p in enumerate(outs) if p['c'] == o['c']]
            for (k, i, nc) in wrts:
                own = k == 'out' and i == oi + 1
                if not own and rnd.random() < 0.25:
                    continue
                nr = o['sz']
                kind = rnd.choice(KINDS)
                if kind == 'diag' and nr != nc:
                    kind = 'dense'
                pat = []
                if kind in ('rc', 'coo', 'csr', 'csc'):
                    cells = [[r, c] for r in range(nr) for c in range(nc)]
                    rnd.shuffle(cells)
                    pat = cells[:rnd.randint(1, len(cells))]
                    if own:     # keep the diagonal of an implicit component's own block populated
                        pat += [[r, r] for r in range(nr) if [r, r] not in pat]
                    if kind == 'coo' and rnd.random() < 0.6:
                        pat = pat + [rnd.choice(pat)]
                subs.append({'of': oi + 1, 'wrt': {'k': k, 'i': i}, 'kind': kind, 'pat': pat})
        if not subs:
            continue
        return {'name': name, 'rcdup': False, 'outs': outs, 'ins': ins, 'impl': impl, 'subs': subs}


def layout_to_tla(L):
    d = dict(L)
    d['impl'] = set(L['impl'])
    return to_tla(d)


SNIPPET = 'replay with: ./check C11 --replay <this file>   (scenario = layout + storage format/placement + history)'


def strip(hist):
    return [{k: v for k, v in ev.items() if k != 'asm'} for ev in hist]


def run(ctx):
    import collections
    import random
    quick = ctx.tier == 'quick'
    workers = int(os.environ.get('VF_C11_WORKERS', min(16, os.cpu_count() or 1)))
    nq, depth = 2, 6
    ctx.register_predicates(PREDICATES)

    if getattr(ctx, 'replay', None):
        # TLC recomputes the expectations along exactly the stored history, then the history is run on the real code
        with open(ctx.replay) as fh:
            scn = json.load(fh)['scenario']
        script = [{k: v for k, v in ev.items() if k not in ('asm', 're', 'im')} for ev in scn['history']]
        mod = os.path.join(ctx.work, 'JacobianReplay.tla')
        with open(mod, 'w') as fh:
            fh.write('---- MODULE JacobianReplay ----\nEXTENDS JacobianMC\nRLayouts == <<%s>>\nScript == %s\n'
                     'ScriptNext == Len(hist) < Len(Script) /\\ Do(Script[Len(hist) + 1])\n====\n'
                     % (layout_to_tla(scn['layout']), to_tla(script)))
        cfg = ctx.write_cfg('JacobianReplay.cfg', 'CONSTANTS\n  Layouts <- RLayouts\n  NQ = %d\n  Depth = %d\nINIT Init\nNEXT ScriptNext\n'
                            'INVARIANT Denotes\nINVARIANT FormatsAgree\nINVARIANT Export\n' % (nq, len(script)))
        r = ctx.tlc_check(mod, cfg, timeout=600, workers=1, coverage=False)
        got = r.exports('EXP')
        if len(got) != 1:
            raise MachineryError('replay: the stored history is not a behaviour of the specification')
        quiet()
        res = replay(scn['layout'], scn['variant'], got[0]['h'], nq)
        print('replay: %s' % json.dumps({k: v for k, v in res.items() if k != 'fail'}))
        if res['status'] == 'fail':
            f = res['fail']
            ctx.violation(dict(scn, failed={k: f[k] for k in f if k not in ('expected', 'observed')}), f['expected'], f['observed'],
                          f['clause'], snippet=SNIPPET)
        ctx.impl = 1
        ctx.evaluations = res['steps']
        ctx.sample({'replayed': ctx.replay, 'status': res['status'], 'history': script})
        ctx.rule = 'replay of one stored scenario (expectations recomputed by TLC along the stored history)'
        return

    # 1. layouts: the fixed ones live in JacobianMC.tla, seeded random ones are added in a generated module
    rnd = random.Random(1000 + ctx.seed)
    gen = [gen_layout(rnd, 'G%d' % (k + 1)) for k in range(2 if quick else 12)]
    mod = os.path.join(ctx.work, 'JacobianGen.tla')
    with open(mod, 'w') as fh:
        fh.write('---- MODULE JacobianGen ----\nEXTENDS JacobianMC\nGenLayouts == AllLayouts \\o <<\n  %s\n>>\n====\n'
                 % ',\n  '.join(layout_to_tla(L) for L in gen))
    head = 'CONSTANTS\n  Layouts <- GenLayouts\n  NQ = %d\n  Depth = %d\nINIT Init\nNEXT Next\n' % (nq, depth)
    # 2. the design: every format denotes Asm(latest values) and computes its products, in every reachable state
    cfg = ctx.write_cfg('JacobianGen.cfg', head + 'VIEW View\nINVARIANT TypeOK\nINVARIANT Denotes\nINVARIANT FormatsAgree\n'
                                                  'INVARIANT Adjoint\n')
    r = ctx.tlc_check(mod, cfg, timeout=1500, workers=workers)
    ctx.require_actions(['Linearize', 'SetComplex', 'Apply'])
    scn = r.exports('SCN')
    if not scn:
        raise MachineryError('no layout export')
    layouts = scn[0] + gen
    # 3. histories with the exact expectations
    ntraces = 60 if quick else 300
    cfg = ctx.write_cfg('JacobianGen_sim.cfg', head + 'INVARIANT Export\n')
    x = ctx.tlc_run(mod, cfg, simulate='num=%d' % ntraces, depth=depth + 1, seed=ctx.seed + 1, workers=1,
                    timeout=600 if quick else 2400)
    if x.error or 'traces generated' not in x.out:
        raise MachineryError('simulation failed:\n' + x.tail())
    beh = x.exports('EXP')
    if len(beh) < ntraces:
        raise MachineryError('simulation produced only %d behaviours:\n%s' % (len(beh), x.tail()))
    # the oracle is itself checked: TLC's matrices and products against an independent numpy evaluation
    for b in beh:
        L = layouts[b['ly'] - 1]
        q = 0
        for ev in b['h']:
            if ev['a'] == 'Linearize':
                q = ev['q']
                if not np.array_equal(np.array(ev['asm'], dtype=float), ref_asm(L, q)):
                    raise MachineryError('spec and reference disagree on Asm for layout %s, q=%d' % (L['name'], q))
            elif ev['a'] == 'Apply':
                A = ref_asm(L, q)
                v = seed_vec(ev['sd'], A.shape[0])
                w = A @ v if ev['mode'] == 'fwd' else A.T @ v
                if not (np.array_equal(w.real, np.array(ev['re'], dtype=float)) and np.array_equal(w.imag, np.array(ev['im'], dtype=float))):
                    raise MachineryError('spec and reference disagree on a product for layout %s' % L['name'])
    # simulation checks the invariant on every candidate successor, so the behaviours of one trace share their first
    # depth-1 actions: merge them into one history  prefix . Applies . Linearizes . SetComplex  (Apply does not change
    # the spec's state and Linearize is always enabled, so the merged history is a behaviour of the spec as well)
    groups = collections.OrderedDict()
    for b in beh:
        key = (b['ly'], json.dumps(b['h'][:-1], sort_keys=True))
        groups.setdefault(key, []).append(b['h'])
    hists = []
    for (ly, _), hs in groups.items():
        last = {json.dumps(h[-1], sort_keys=True): h[-1] for h in hs}
        order = {'Apply': 0, 'Linearize': 1, 'SetComplex': 2}
        finals = sorted(last.values(), key=lambda e: (order[e['a']], e.get('mode', ''), e.get('sd', 0), e.get('q', 0)))
        hists.append((ly, hs[0][:-1] + finals))
    jobs = []
    for ly, h in hists:
        for v in VARIANTS:
            jobs.append((layouts[ly - 1], v, h, nq))
    nproc = min(workers, 16)
    chunks = split(list(range(len(jobs))), nproc * 4)
    res = pmap(_worker, [[jobs[j] for j in c] for c in chunks if c], nproc)
    order = [j for c in chunks if c for j in c]
    # 4. judge
    stats = collections.Counter()
    classes = collections.Counter()
    na = collections.Counter()
    solvers = collections.Counter()
    nsteps = 0
    for j, r in zip(order, [y for ys in res for y in ys]):
        L, v, h, _ = jobs[j]
        nsteps += r['steps']
        stats['%s/%s:%s' % (v[0], v[1], r['status'])] += 1
        if r['status'] == 'na':
            na['%s: %s' % (L['name'] if L.get('rcdup') else v[0], r['why'])] += 1
            continue
        solvers['%s/%s: %s' % (v[0], v[1], r.get('solver'))] += 1
        kinds = sorted({s['kind'] for s in L['subs']})
        if any(e['a'] == 'SetComplex' for e in h) and sum(1 for e in h if e['a'] == 'Linearize') >= 2:
            ctx.note_nontrivial('%s|%s|%s' % (L['name'], '/'.join(v), json.dumps(strip(h), sort_keys=True)))
        if r['status'] == 'fail':
            f = r['fail']
            scn_ = {'layout': L, 'variant': list(v), 'history': h[:f['step'] + 1],
                    'failed': {k: f[k] for k in f if k not in ('expected', 'observed')}}
            classes[classify(scn_)] += 1
            ctx.violation(scn_, f['expected'], f['observed'], '%s [%s/%s, layout %s, kinds %s%s]' % (
                f['clause'], v[0], v[1], L['name'], ','.join(kinds), ', complex' if f['cplx'] else ''), snippet=SNIPPET)
    ctx.impl = len(jobs) - sum(na.values())
    ctx.evaluations = nsteps
    ctx.exhaustive = False
    ctx.extra['histories'] = len(hists)
    ctx.extra['tlc_behaviours'] = len(beh)
    ctx.extra['actions_replayed'] = nsteps
    ctx.extra['variant_outcomes'] = dict(stats)
    ctx.extra['failure_classes'] = dict(classes)
    ctx.extra['not_applicable'] = dict(na)
    ctx.extra['linear_solvers'] = dict(solvers)
    ctx.extra['formats_not_exercised'] = [
        "rows/cols sub-Jacobian with a duplicated entry: declare_partials raises RuntimeError (layout L4 is counted, not compared)",
        "DirectSolver with assembled_jac_type='csr': DirectSolver._linearize raises 'not implemented for matrix type csr'; csr is "
        "exercised through ScipyKrylov(assemble_jac=True)",
        "coo: no assembled_jac_type selects COOMatrix; it is exercised by installing SplitJacobian(COOMatrix) on the group"]
    for ly, h in hists[:2]:
        ctx.sample({'layout': layouts[ly - 1]['name'], 'history': strip(h)[:8]})
    ctx.sample({'layout': layouts[0]})
    ctx.rule = ('TLC -simulate traces of depth %d over {Linearize(q in 1..%d), SetComplex, Apply(fwd|rev, 4 seed vectors)} on %d layouts '
                '(4 fixed: every sub-Jacobian kind, coo duplicates, repeated and negative src_indices, factor 1000, overlapping '
                'inputs, in-place dense path; %d seeded random ones); the candidate successors of every trace are merged into one '
                'history; every history is replayed on a real Problem per (format, placement) in %s with the assembled matrices '
                'read back after every Linearize and the product compared after every Apply; non-trivial = (layout, variant, '
                'history) with a dtype switch and at least two linearisations' % (depth, nq, len(layouts), len(gen), VARIANTS))
    ctx.assumptions = [
        'values of the sub-Jacobians are real integers also in complex mode; vectors carry an imaginary part only in complex mode',
        'products are taken only after a Linearize that follows the last dtype switch (as every OpenMDAO solver does)',
        'complex linear vectors exist only below a gradient-based nonlinear solver: a NewtonSolver (never run) is attached',
        'no relevance masks / scopes in Apply; serial (no MPI); DefaultVector only',
        'rev-mode products on complex vectors are part of the spec although OpenMDAO\'s own solvers only solve fwd under complex step']
