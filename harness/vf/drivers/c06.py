"""C06 - unit conversion is a consistent affine algebra.

Spec: spec/mech/Units.tla (units as [pow, symbolic fac, off]; Mul/Div/PowInt/Prefix/Eval/Simplify/Compatible/ConvTuple;
the algebraic laws checked exhaustively by TLC on an abstract universe) and spec/mech/UnitsJudge.tla (the shipped
library under that specification).

Binding: this driver parses openmdao/utils/unit_library.ini on its own (configparser + ast + Fraction/Decimal, no use
of units.py), hands the library (defining expression trees over numeric atoms) and the cases (single expressions,
pairs, triples) to TLC as JSON; TLC builds the unit table and derives for every case the expected dimension vector,
the SYMBOLIC factor/offset, compatibility and the symbolic conversion tuples.  The driver evaluates the symbolic
factors numerically (product of atom values ** exponent, exact Fractions) and compares with what units.py returns:
_find_unit, is_compatible, unit_conversion, convert_units (A->B->A, A->B->C vs A->C), simplify_unit (re-parsed).

Every chunk of cases is replayed from a freshly imported library (units.import_library), in a fixed order: the answer
to a lookup must not depend on which units were looked up before (the spec's Eval is a function of the expression)."""
import ast
import collections
import configparser
import keyword
import os
import random
import re
from decimal import Decimal
from fractions import Fraction as F

from ..tlc import MachineryError
from ..util import pmap

PI = F(Decimal('3.14159265358979323846264338327950288419716939937510582097494459'))
VALUES = [0.0, 1.0, -2.5, 1.0e6]
RTOL = F(1, 10 ** 12)
TINY = F(1, 10 ** 300)
NUMLIT = collections.OrderedDict([('n:2', '2'), ('n:10', '10'), ('n:1000', '1000'), ('n:5/2', '2.5'), ('1', '1')])
WORKERS = 8
FINDING_STALE = 'C06-prefixed-name-reparsed-after-cached-prefix'
FINDING_UNDERSCORE = 'C06-underscore-name-breaks-prefix-resolution'


# ------------------------------------------------------------------------------------------------ the library
class Lib:
    """unit_library.ini parsed independently of units.py"""

    def __init__(self, path):
        cp = configparser.RawConfigParser()
        cp.optionxform = str
        with open(path) as fh:
            cp.read_file(fh)
        self.atoms = {'pi': PI}
        for a in NUMLIT:
            if a != '1':
                self.atoms[a] = F(a[2:])
        self.prefixes = collections.OrderedDict()
        for k, v in cp.items('prefixes'):
            self.prefixes[k] = F(Decimal(v.partition(',')[0].strip()))
            self.atoms['p:' + k] = self.prefixes[k]
        self.base = [name for _, name in cp.items('base_units')]
        raw = collections.OrderedDict()
        for name, val in cp.items('units'):
            data = [x.strip() for x in val.split(',')]
            if len(data) == 2:
                raw[name] = {'name': name, 'kind': 'expr', 'e': self.to_tree(data[0])}
            elif len(data) == 4:
                o = F(Decimal(data[2]))
                self.atoms['o:%s' % o] = o
                raw[name] = {'name': name, 'kind': 'off', 'base': data[1], 'fac': self.num_atom(data[0]), 'off': 'o:%s' % o}
            else:
                raise MachineryError('unit_library.ini: cannot parse %r' % val)
        if set(raw) & set(self.base):
            raise MachineryError('unit defined twice: %s' % (set(raw) & set(self.base)))
        # dependency order
        # dependency layers: a unit refers only to units of earlier layers
        done, self.defs, self.layers = set(self.base), [], []
        todo = list(raw.values())
        while todo:
            layer = [d for d in todo if ({d['base']} if d['kind'] == 'off' else leaf_names(d['e'])) <= done]
            if not layer:
                raise MachineryError('unresolvable units: %s' % [d['name'] for d in todo])
            self.layers.append(layer)
            self.defs += layer
            done |= {d['name'] for d in layer}
            todo = [d for d in todo if d['name'] not in done]
        self.names = self.base + [d['name'] for d in self.defs]
        # the harness's own exact reference table (cross-checked against TLC's table: machinery)
        self.table = {}
        nd = len(self.base)
        for i, b in enumerate(self.base):
            self.table[b] = (tuple(1 if j == i else 0 for j in range(nd)), F(1), None)
        for d in self.defs:
            if d['kind'] == 'expr':
                self.table[d['name']] = self.ref_eval(d['e'])
            else:
                p, f, o = self.table[d['base']]
                if o is not None:
                    raise MachineryError('offset unit on offset unit')
                self.table[d['name']] = (p, f * self.atom_val(d['fac']), self.atoms[d['off']])

    def num_atom(self, text):
        v = F(Decimal(text))
        if v == 1:
            return '1'
        a = 'n:%s' % v
        self.atoms[a] = v
        return a

    def to_tree(self, src):
        def rec(n):
            if isinstance(n, ast.BinOp) and isinstance(n.op, (ast.Mult, ast.Div)):
                return {'op': 'mul' if isinstance(n.op, ast.Mult) else 'div', 'l': rec(n.left), 'r': rec(n.right)}
            if isinstance(n, ast.BinOp) and isinstance(n.op, ast.Pow):
                r, sign = n.right, 1
                if isinstance(r, ast.UnaryOp) and isinstance(r.op, ast.USub):
                    r, sign = r.operand, -1
                if not (isinstance(r, ast.Constant) and isinstance(r.value, int)):
                    raise MachineryError('non-integer exponent in %r' % src)
                return {'op': 'pow', 'l': rec(n.left), 'n': sign * r.value}
            if isinstance(n, ast.Name):
                if n.id == 'pi':
                    return {'op': 'n', 'p': '', 'name': 'pi'}
                return {'op': 'u', 'p': '', 'name': n.id}
            if isinstance(n, ast.Constant) and isinstance(n.value, (int, float)):
                return {'op': 'n', 'p': '', 'name': self.num_atom(ast.get_source_segment(src, n))}
            raise MachineryError('unit_library.ini: unsupported syntax in %r' % src)
        return rec(ast.parse(src, mode='eval').body)

    def atom_val(self, a):
        return F(1) if a == '1' else self.atoms[a]

    # ---- exact reference semantics in Python (used for the oracle cross-check and to classify violations)
    def ref_leaf(self, t, overrides=None):
        if t['op'] == 'n':
            return (tuple([0] * len(self.base)), self.atom_val(t['name']), None)
        if overrides and leaf_token(t) in overrides:
            return overrides[leaf_token(t)]
        u = self.table[t['name']]
        if t['p']:
            if u[2] is not None:
                raise Refused()
            return (u[0], u[1] * self.atoms[t['p']], None)
        return u

    def ref_eval(self, t, overrides=None, sub=None):
        """(pow, fac, off); raises Refused.  sub: list collecting the factor of every subtree"""
        op = t['op']
        if op in ('u', 'n'):
            r = self.ref_leaf(t, overrides)
        elif op == 'pow':
            a = self.ref_eval(t['l'], overrides, sub)
            if a[2] is not None:
                raise Refused()
            r = (tuple(x * t['n'] for x in a[0]), a[1] ** t['n'], None)
        else:
            a = self.ref_eval(t['l'], overrides, sub)
            b = self.ref_eval(t['r'], overrides, sub)
            if a[2] is not None or b[2] is not None:
                raise Refused()
            if op == 'mul':
                r = (tuple(x + y for x, y in zip(a[0], b[0])), a[1] * b[1], None)
            else:
                r = (tuple(x - y for x, y in zip(a[0], b[0])), a[1] / b[1], None)
        if sub is not None:
            sub.append(r)
        return r

    # ---- prefixed names: every reading of a string over the names of the library
    def readings(self, s):
        out = []
        if s in self.table:
            out.append(('', s))
        for p in self.prefixes:
            if s.startswith(p) and s[len(p):] in self.table:
                out.append((p, s[len(p):]))
        return out

    def prefixable(self, p, name):
        """the string p+name has exactly one reading over the library (and is no Python keyword)"""
        s = p + name
        if self.table[name][2] is not None:
            return False
        if keyword.iskeyword(s) and s != 'as':
            return False
        return self.readings(s) == [(p, name)]


class Refused(Exception):
    pass


def leaf_names(t):
    if t['op'] == 'u':
        return {t['name']}
    if t['op'] == 'n':
        return set()
    if t['op'] == 'pow':
        return leaf_names(t['l'])
    return leaf_names(t['l']) | leaf_names(t['r'])


def leaves(t):
    if t['op'] in ('u', 'n'):
        return [t]
    if t['op'] == 'pow':
        return leaves(t['l'])
    return leaves(t['l']) + leaves(t['r'])


def leaf_token(t):
    if t['op'] == 'n':
        return NUMLIT[t['name']]
    return (t['p'][2:] if t['p'] else '') + t['name']


def render(t, rnd=None):
    """expression string with the parentheses Python's grammar needs (plus a few redundant ones)"""
    op = t['op']
    if op in ('u', 'n'):
        return leaf_token(t)
    if op == 'pow':
        b = render(t['l'], rnd)
        if t['l']['op'] not in ('u',):
            b = '(%s)' % b
        return '%s**%d' % (b, t['n'])
    a, b = render(t['l'], rnd), render(t['r'], rnd)
    if t['r']['op'] in ('mul', 'div'):
        b = '(%s)' % b
    elif rnd is not None and rnd.random() < 0.1:
        b = '(%s)' % b
    if rnd is not None and t['l']['op'] in ('mul', 'div') and rnd.random() < 0.15:
        a = '(%s)' % a
    sep = '*' if op == 'mul' else '/'
    if rnd is not None and rnd.random() < 0.1:
        sep = ' %s ' % sep
    return a + sep + b


def U(name, p=''):
    return {'op': 'u', 'p': ('p:' + p) if p else '', 'name': name}


# ------------------------------------------------------------------------------------------------ case generation
class Gen:
    def __init__(self, lib, rnd, pool):
        self.lib, self.rnd, self.pool = lib, rnd, pool
        self.byp = collections.defaultdict(list)
        for n in lib.names:
            if lib.table[n][2] is None:
                self.byp[lib.table[n][0]].append(n)
        self.offset_units = [n for n in lib.names if lib.table[n][2] is not None]
        self.pre = list(lib.prefixes)

    def leaf(self, names=None, p_prefix=0.33):
        rnd = self.rnd
        n = rnd.choice(names or self.pool)
        if rnd.random() < p_prefix:
            for _ in range(4):
                p = rnd.choice(self.pre)
                if self.lib.prefixable(p, n):
                    return U(n, p)
        return U(n)

    def tree(self, depth):
        rnd = self.rnd
        if depth == 0:
            if rnd.random() < 0.015 and self.offset_units:
                return U(rnd.choice(self.offset_units))
            return self.leaf()
        r = rnd.random()
        if r < 0.2:
            return {'op': 'pow', 'l': self.tree(depth - 1), 'n': rnd.choice([-3, -2, -1, 2, 2, 3, 0, 1])}
        d2 = rnd.randrange(depth)
        l, r2 = (depth - 1, d2) if rnd.random() < 0.5 else (d2, depth - 1)
        t = {'op': 'mul' if r < 0.6 else 'div', 'l': self.tree(l), 'r': self.tree(r2)}
        if rnd.random() < 0.08:     # a bare number as one operand (2*m, m/1000, 1/s)
            side = rnd.choice(['l', 'r'])
            other = t['r' if side == 'l' else 'l']
            if t[side]['op'] == 'u' and other['op'] != 'n':
                # number / bare offset unit is not compared (see the assumptions): keep the unit there
                if not (side == 'l' and t['op'] == 'div' and other['op'] == 'u' and other['name'] in self.offset_units):
                    t[side] = {'op': 'n', 'p': '', 'name': rnd.choice(list(NUMLIT))}
        return t

    def admissible(self, t):
        """None if refused by the spec, True if every subtree has a moderate factor (no float overflow), else False"""
        sub = []
        try:
            self.lib.ref_eval(t, sub=sub)
        except Refused:
            return None
        for p, f, _ in sub:
            if max(abs(x) for x in p) > 12 or not (F(1, 10 ** 100) < abs(f) < 10 ** 100):
                return False
        return True

    def partner(self, t):
        """same tree shape, every unit leaf replaced by a compatible library unit (possibly prefixed)"""
        if t['op'] == 'n':
            return t
        if t['op'] == 'u':
            names = self.byp[self.lib.table[t['name']][0]]
            return self.leaf(names, 0.3)
        if t['op'] == 'pow':
            return {'op': 'pow', 'l': self.partner(t['l']), 'n': t['n']}
        return {'op': t['op'], 'l': self.partner(t['l']), 'r': self.partner(t['r'])}


def build_cases(ctx, lib):
    quick = ctx.tier == 'quick'
    rnd = random.Random(1000003 * ctx.seed + (1 if quick else 2))
    plain = [n for n in lib.names if lib.table[n][2] is None]
    pool = sorted(rnd.sample(plain, 45)) if quick else plain
    g = Gen(lib, rnd, pool)
    cases, fam = [], collections.Counter()

    def add(family, k, **trees):
        c = dict(k=k, fam=family, **trees)
        c['s'] = {key: render(t, rnd if family.startswith('comp') else None) for key, t in trees.items()}
        cases.append(c)
        fam[family] += 1
        return c

    # (q) every unit of the library as a leaf
    for n in lib.names:
        add('lib-unit', 'unit', e=U(n))
    # all compatible pairs of library units
    for i, a in enumerate(lib.names):
        for b in lib.names[i + 1:]:
            if lib.table[a][0] == lib.table[b][0]:
                add('lib-pair', 'pair', a=U(a), b=U(b))
    # a sample of incompatible pairs
    k = 0
    while k < (300 if quick else 2000):
        a, b = rnd.sample(lib.names, 2)
        if lib.table[a][0] != lib.table[b][0]:
            add('lib-incompatible', 'pair', a=U(a), b=U(b))
            k += 1
    # prefixed forms of every base unit (all prefixes whose string has one reading), each against its base unit
    prefixed = []
    for b in lib.base:
        for p in lib.prefixes:
            if lib.prefixable(p, b):
                prefixed.append((p, b))
    # prefixes on a rotating subset of derived units
    derived = [n for n in plain if n not in lib.base]
    for n in (rnd.sample(derived, 12) if quick else derived):
        for p in (rnd.sample(list(lib.prefixes), 4) if quick else lib.prefixes):
            if lib.prefixable(p, n):
                prefixed.append((p, n))
    for p, b in prefixed:
        add('prefixed', 'pair', a=U(b, p), b=U(b))
    # refusal family: offset units below an operator or a prefix
    for o in g.offset_units:
        m, s = U(lib.base[0]), U(lib.base[2])
        two = {'op': 'n', 'p': '', 'name': 'n:2'}
        for t in [{'op': 'mul', 'l': U(o), 'r': m}, {'op': 'mul', 'l': m, 'r': U(o)}, {'op': 'div', 'l': U(o), 'r': s},
                  {'op': 'div', 'l': s, 'r': U(o)}, {'op': 'pow', 'l': U(o), 'n': 2}, {'op': 'pow', 'l': U(o), 'n': -1},
                  {'op': 'mul', 'l': U(o), 'r': U(o)}, {'op': 'div', 'l': U(o), 'r': U(o)},
                  {'op': 'mul', 'l': two, 'r': U(o)}, {'op': 'div', 'l': U(o), 'r': two}, U(o, 'k'), U(o, 'm')]:
            add('refusal', 'unit', e=t)
    # offset units among themselves and against their base dimension (all ordered triples)
    temp = [n for n in lib.names if lib.table[n][0] == lib.table[g.offset_units[0]][0]] if g.offset_units else []
    for a in temp:
        for b in temp:
            for c in temp:
                if len({a, b, c}) == 3 and (lib.table[a][2] is not None or lib.table[b][2] is not None):
                    add('offset-triple', 'tri', a=U(a), b=U(b), c=U(c))
    # seeded random composite expressions of depth 2-3, each with a compatible partner and a triple
    ncomp = 1400 if quick else 9000
    nref = 0
    while fam['comp-unit'] < ncomp:
        depth = rnd.choice([1, 2, 2, 2, 3] if quick else [2, 2, 3, 3, 3])
        t = g.tree(depth)
        ok = g.admissible(t)
        if ok is None:
            if nref < (40 if quick else 200):
                nref += 1
                add('comp-refusal', 'unit', e=t)
            continue
        if not ok:
            continue
        add('comp-unit', 'unit', e=t)
        t2 = g.partner(t)
        if g.admissible(t2):
            add('comp-pair', 'pair', a=t, b=t2)
            if fam['comp-triple'] < (400 if quick else 4000):
                t3 = g.partner(t)
                if g.admissible(t3):
                    add('comp-triple', 'tri', a=t, b=t2, c=t3)
        if rnd.random() < 0.2:
            t4 = g.tree(rnd.choice([1, 2]))
            if g.admissible(t4):
                add('comp-random-pair', 'pair', a=t, b=t4)
    # triples A -> B -> C of library units inside the compatibility classes
    classes = [ns for ns in g.byp.values() if len(ns) >= 3]
    k = 0
    while k < (600 if quick else 6000):
        a, b, c = rnd.sample(rnd.choice(classes), 3)
        add('lib-triple', 'tri', a=U(a), b=U(b), c=U(c))
        k += 1
    return cases, fam, prefixed


def build_chunks(ctx, cases, rnd):
    """Ordered lookup histories (each replayed from a freshly imported library).  The prefixed family is replayed in
    library order, in reverse order and in a seeded shuffle; everything else in seeded shuffled chunks."""
    pre = [i for i, c in enumerate(cases) if c['fam'] == 'prefixed']
    rest = [i for i, c in enumerate(cases) if c['fam'] != 'prefixed']
    rnd.shuffle(rest)
    chunks = [('prefixed:library-order', pre), ('prefixed:reverse-order', pre[::-1])]
    sh = pre[:]
    rnd.shuffle(sh)
    chunks.append(('prefixed:shuffled', sh))
    n = 28 if ctx.tier == 'quick' else 96
    for j in range(n):
        chunks.append(('mixed:%d' % j, rest[j::n]))
    if ctx.tier != 'quick':
        for j in range(4):
            sh = pre + [i for i in rest if cases[i]['fam'].startswith('comp')][j::4]
            rnd.shuffle(sh)
            chunks.append(('prefixed+composites:%d' % j, sh))
    return [(label, idx) for label, idx in chunks if idx]


# ------------------------------------------------------------------------------------------------ worker
def _obs_unit(U_, s, full=True):
    o = {}
    try:
        u = U_._find_unit(s)
    except Exception as e:                                  # noqa
        return {'exc': '%s: %s' % (type(e).__name__, e)}
    if u is None:
        return {'none': True}
    if not isinstance(u, U_.PhysicalUnit):
        return {'exc': 'not a PhysicalUnit: %r' % (u,)}
    o['pow'] = [int(x) if float(x).is_integer() else float(x) for x in u._powers]
    o['fac'] = float(u._factor)
    o['off'] = float(u._offset)
    if full:
        try:
            o['simp'] = U_.simplify_unit(s)
            if o['simp'] is not None:
                o['simp_re'] = _obs_unit(U_, o['simp'], full=False)
        except Exception as e:                              # noqa
            o['simp_exc'] = '%s: %s' % (type(e).__name__, e)
        o['self'] = _call(lambda: bool(U_.is_compatible(s, s)))
        o['selfconv'] = _call(lambda: [float(x) for x in U_.unit_conversion(s, s)])
    return o


def _call(f):
    try:
        return {'v': f()}
    except Exception as e:                                  # noqa
        return {'exc': '%s: %s' % (type(e).__name__, e)}


def _conv(U_, a, b):
    r = {'tuple': _call(lambda: [float(x) for x in U_.unit_conversion(a, b)]), 'vals': []}
    for x in VALUES:
        r['vals'].append(_call(lambda: float(U_.convert_units(x, a, b))))
    return r


def _worker(chunk):
    import warnings
    warnings.filterwarnings('ignore')
    import openmdao.utils.units as U_
    out = []
    for label, items in chunk:
        # a fresh library: the public way to reset the unit table and the lookup cache
        with open(os.path.join(os.path.dirname(U_.__file__), 'unit_library.ini')) as fh:
            U_.import_library(fh)
        res = []
        for k, s in items:
            if k == 'unit':
                res.append({'e': _obs_unit(U_, s['e'])})
                continue
            o = {key: _obs_unit(U_, s[key], full=False) for key in sorted(s)}
            a, b = s['a'], s['b']
            o['compat_ab'] = _call(lambda: bool(U_.is_compatible(a, b)))
            o['compat_ba'] = _call(lambda: bool(U_.is_compatible(b, a)))
            o['ab'] = _conv(U_, a, b)
            o['ba'] = _conv(U_, b, a)
            # round trip: A -> B -> A with the values actually returned
            o['rt'] = []
            for y in o['ab']['vals']:
                o['rt'].append(_call(lambda: float(U_.convert_units(y['v'], b, a))) if 'v' in y else None)
            if k == 'tri':
                c = s['c']
                o['bc'] = _conv(U_, b, c)
                o['ac'] = _conv(U_, a, c)
                o['chain'] = []
                for y in o['ab']['vals']:
                    o['chain'].append(_call(lambda: float(U_.convert_units(y['v'], b, c))) if 'v' in y else None)
            res.append(o)
        out.append(res)
    return out


# ------------------------------------------------------------------------------------------------ expectations
def fval(lib, f):
    """numeric value of a symbolic factor (JSON object atom -> exponent; the empty function is printed as [])"""
    r = F(1)
    for a, k in (f.items() if isinstance(f, dict) else ()):
        r *= lib.atom_val(a) ** k
    return r


def exp_unit_tlc(lib, u):
    if u['err']:
        return {'err': True}
    return {'err': False, 'pow': tuple(u['pow']), 'fac': fval(lib, u['fac']),
            'off': F(0) if u['off'] == 'none' else lib.atoms[u['off']]}


def exp_conv_tlc(lib, c):
    if not c['ok']:
        return None
    d = F(0)
    for t in c['off']:
        d += t['c'] * lib.atoms[t['o']] * fval(lib, t['m'])
    return (fval(lib, c['fac']), d)


def exp_unit_ref(lib, t, overrides=None):
    try:
        p, f, o = lib.ref_eval(t, overrides)
    except Refused:
        return {'err': True}
    return {'err': False, 'pow': tuple(p), 'fac': f, 'off': F(0) if o is None else o}


def exp_conv_ref(a, b):
    if a['err'] or b['err'] or a['pow'] != b['pow']:
        return None
    return (a['fac'] / b['fac'], a['off'] - b['off'] * b['fac'] / a['fac'])


def expectation_ref(lib, c, overrides=None):
    if c['k'] == 'unit':
        return {'e': exp_unit_ref(lib, c['e'], overrides)}
    x = {key: exp_unit_ref(lib, c[key], overrides) for key in ('a', 'b', 'c') if key in c}
    x['ab'] = exp_conv_ref(x['a'], x['b'])
    x['ba'] = exp_conv_ref(x['b'], x['a'])
    if c['k'] == 'tri':
        x['bc'] = exp_conv_ref(x['b'], x['c'])
        x['ac'] = exp_conv_ref(x['a'], x['c'])
    return x


def expectation_tlc(lib, c, v):
    if v.get('laws') is not True:
        raise MachineryError('UnitsJudge: a law instance is false on the library for case %r: %r' % (c['s'], v))
    if c['k'] == 'unit':
        return {'e': exp_unit_tlc(lib, v['u'])}
    x = {key: exp_unit_tlc(lib, v[key]) for key in ('a', 'b', 'c') if key in c}
    x['ab'] = exp_conv_tlc(lib, v['ab'])
    if c['k'] == 'pair':
        x['ba'] = exp_conv_tlc(lib, v['ba'])
        if bool(v['compat']) != (x['ab'] is not None):
            raise MachineryError('UnitsJudge: Compatible differs from ConvTuple.ok')
    else:
        x['ba'] = exp_conv_ref(x['b'], x['a'])
        x['bc'] = exp_conv_tlc(lib, v['bc'])
        x['ac'] = exp_conv_tlc(lib, v['ac'])
    return x


# ------------------------------------------------------------------------------------------------ comparison
def frac(x):
    try:
        return F(x)
    except (ValueError, OverflowError, TypeError):
        return None


def close(obs, exact, scale=None):
    o = frac(obs)
    if o is None:
        return False
    s = abs(exact) if scale is None else scale
    return abs(o - exact) <= RTOL * s + TINY


def cmp_unit(name, s, e, o, out):
    """e: expectation, o: observation of _find_unit; appends (clause, expected, observed)"""
    refused = 'exc' in o or 'none' in o
    if e['err']:
        if not refused:
            out.append(('%s=%r: the spec refuses (offset unit below an operator/prefix) but _find_unit returns a unit'
                        % (name, s), 'refused', o))
        return False
    if refused:
        out.append(('%s=%r: _find_unit rejects an expression whose parts it accepts' % (name, s),
                    {'pow': e['pow'], 'fac': float(e['fac'])}, o, ('reject', name)))
        return False
    if tuple(o['pow']) != e['pow']:
        out.append(('%s=%r: powers differ' % (name, s), list(e['pow']), o['pow']))
    if not close(o['fac'], e['fac']):
        out.append(('%s=%r: factor is not the one implied by the parts' % (name, s), float(e['fac']), o['fac']))
    if not close(o['off'], e['off']):
        out.append(('%s=%r: offset differs' % (name, s), float(e['off']), o['off']))
    return True


def cmp_conv(tag, sa, sb, A, B, e, o, out, rt=None):
    """conversion A -> B: tuple, values, (round trip)"""
    if e is None:
        for what, r in [('unit_conversion', o['tuple'])] + [('convert_units(%r)' % x, v) for x, v in zip(VALUES, o['vals'])]:
            if 'exc' not in r:
                out.append(('%s %r -> %r: incompatible units but %s does not raise' % (tag, sa, sb, what), 'raises', r))
                return
        return
    S, D = e
    scale = abs(A['off']) + abs(B['off'] * B['fac'] / A['fac'])
    t = o['tuple']
    if 'exc' in t:
        out.append(('%s %r -> %r: compatible units but unit_conversion raises' % (tag, sa, sb), [float(S), float(D)], t))
        return
    if not close(t['v'][0], S) or not close(t['v'][1], D, scale):
        out.append(('%s %r -> %r: unit_conversion differs from ConvTuple' % (tag, sa, sb), [float(S), float(D)], t['v']))
    for i, x in enumerate(VALUES):
        y = o['vals'][i]
        want = (F(x) + D) * S
        if 'exc' in y:
            out.append(('%s %r -> %r: convert_units(%r) raises' % (tag, sa, sb, x), float(want), y))
            continue
        if not close(y['v'], want, (abs(F(x)) + scale) * abs(S)):
            out.append(('%s %r -> %r: convert_units(%r) differs' % (tag, sa, sb, x), float(want), y['v']))
        if rt is not None and rt[i] is not None:
            if 'exc' in rt[i] or not close(rt[i]['v'], F(x), 2 * (abs(F(x)) + scale)):
                out.append(('round trip %r -> %r -> %r of %r' % (sa, sb, sa, x), x, rt[i]))


def compare(c, e, o):
    """all disagreements of one case: list of (clause, expected, observed)"""
    out, s = [], c['s']
    if c['k'] == 'unit':
        ob = o['e']
        if not cmp_unit('e', s['e'], e['e'], ob, out):
            return out
        E = e['e']
        # simplify_unit: the returned expression, parsed again, is the same unit
        if 'simp_exc' in ob:
            out.append(('simplify_unit(%r) raises' % s['e'], 'a string', ob['simp_exc']))
        elif ob['simp'] is None:
            if any(E['pow']) or not close(1.0, E['fac']) or E['off'] != 0:
                out.append(('simplify_unit(%r) = None for a unit that is not 1' % s['e'], float(E['fac']), None))
        else:
            r = ob['simp_re']
            if ('none' in r or 'exc' in r) and re.fullmatch(r'[0-9.e+\-*/() ]+', ob['simp']):
                c['skip'] = 'simplify_unit left only numbers'      # counted, not compared (see assumptions)
            elif 'none' in r or 'exc' in r:
                out.append(('simplify_unit(%r) = %r is not a valid unit' % (s['e'], ob['simp']), 'valid', r))
            elif tuple(r['pow']) != E['pow'] or not close(r['fac'], E['fac']) or not close(r['off'], E['off']):
                out.append(('simplify_unit(%r) = %r is a different unit' % (s['e'], ob['simp']),
                            [list(E['pow']), float(E['fac']), float(E['off'])], r))
        if ob['self'].get('v') is not True:
            out.append(('is_compatible(%r, itself)' % s['e'], True, ob['self']))
        sc = ob['selfconv']
        if 'exc' in sc or not close(sc['v'][0], F(1)) or not close(sc['v'][1], F(0), 2 * abs(E['off'])):
            out.append(('unit_conversion(%r, itself) is not the identity' % s['e'], [1.0, 0.0], sc))
        return out
    keys = [k for k in ('a', 'b', 'c') if k in c]
    ok = [cmp_unit(k, s[k], e[k], o[k], out) for k in keys]
    if not all(ok):
        return out
    A, B = e['a'], e['b']
    compat = e['ab'] is not None
    for key, x, y in (('compat_ab', 'a', 'b'), ('compat_ba', 'b', 'a')):
        if o[key].get('v') is not compat:
            out.append(('is_compatible(%r, %r) differs from Compatible (equality of power vectors)' % (s[x], s[y]),
                        compat, o[key]))
    cmp_conv('A->B', s['a'], s['b'], A, B, e['ab'], o['ab'], out, rt=o['rt'])
    cmp_conv('B->A', s['b'], s['a'], B, A, e['ba'], o['ba'], out)
    if c['k'] == 'tri':
        C = e['c']
        cmp_conv('B->C', s['b'], s['c'], B, C, e['bc'], o['bc'], out)
        cmp_conv('A->C', s['a'], s['c'], A, C, e['ac'], o['ac'], out)
        if e['ab'] is not None and e['bc'] is not None and e['ac'] is not None:
            S, D = e['ac']
            scale = abs(A['off']) + abs(B['off'] * B['fac'] / A['fac']) + abs(C['off'] * C['fac'] / A['fac'])
            for i, x in enumerate(VALUES):
                z1, z2 = o['chain'][i], o['ac']['vals'][i]
                if z1 is None or 'exc' in z1 or 'exc' in z2:
                    if z1 is not None and 'exc' in z1:
                        out.append(('chain %r -> %r -> %r of %r raises' % (s['a'], s['b'], s['c'], x), 'a value', z1))
                    continue
                tol = 3 * (abs(F(x)) + scale) * abs(S)
                if not close(z1['v'], F(z2['v']) if frac(z2['v']) is not None else F(0), tol) or \
                        not close(z1['v'], (F(x) + D) * S, tol):
                    out.append(('A->B->C differs from A->C: %r -> %r -> %r of %r' % (s['a'], s['b'], s['c'], x),
                                float((F(x) + D) * S), [z1['v'], z2['v']]))
    return out


# ------------------------------------------------------------------------------------------------ history / classes
TOKEN = re.compile(r'[A-Za-z_][A-Za-z0-9_]*')


def prefixed_tokens(c):
    return [leaf_token(t) for key in ('e', 'a', 'b', 'c') if key in c for t in leaves(c[key]) if t['op'] == 'u' and t['p']]


def classify(lib, c, prior, bad, o):
    """Recognise the two known mechanisms.  prior: prefixed names looked up earlier in the same history (they may be in
    the unit table).  bad: the disagreements found.  Returns (class, detail); class is None unless EVERY disagreement
    of the case is explained."""
    classes, detail, rest = [], {}, bad
    # (1) a prefixed name p2+X is in the table, and a later name p1+p2+X, whose only reading over the library is
    #     (p1 p2)+X with a two-letter prefix, is read as p1+(p2+X): the observed numbers must be exactly those of
    #     that reading
    overrides, alts = {}, []
    table = set(prior) | set(prefixed_tokens(c))
    for key in ('e', 'a', 'b', 'c'):
        for t in (leaves(c[key]) if key in c else []):
            if t['op'] == 'u' and t['p']:
                tok = leaf_token(t)
                for p1 in lib.prefixes:
                    rest_ = tok[len(p1):]
                    if len(p1) == 1 and tok.startswith(p1) and rest_ in table and rest_ not in lib.table:
                        rd = [r for r in lib.readings(rest_) if r[0]]
                        if rd and tok not in overrides:
                            p2, x = rd[0]
                            u = lib.table[x]
                            overrides[tok] = (u[0], u[1] * lib.prefixes[p1] * lib.prefixes[p2], None)
                            alts.append('%s read as %s+%s (= %s+%s+%s) instead of %s+%s' %
                                        (tok, p1, rest_, p1, p2, x, t['p'][2:], t['name']))
    if overrides:
        # which of the candidate names were really re-read is decided by the observed numbers
        import itertools
        toks = sorted(overrides)[:5]
        best = None
        for r in range(len(toks), 0, -1):
            for sub in itertools.combinations(toks, r):
                bad1 = compare(dict(c), expectation_ref(lib, c, {t: overrides[t] for t in sub}), o)
                if {b[0] for b in bad1} < {b[0] for b in bad} and (best is None or len(bad1) < len(best[1])):
                    best = (sub, bad1)
        if best is not None:
            classes.append('stale-prefix')
            detail.update(prior=sorted(set(tok[1:] for tok in best[0])),
                          alt=[a for a in alts if a.split(' ')[0] in best[0]])
            rest = best[1]
    # (2) a library name with an underscore (plain or prefixed) in an expression that needs the prefix fallback of
    #     _find_unit (it contains a prefixed name): the fallback's regular expression has no underscore, splits the
    #     name, fails on the pieces and returns None
    und_keys = {}
    for key in ('e', 'a', 'b', 'c'):
        if key in c and 'none' in o[key]:
            ls = [t for t in leaves(c[key]) if t['op'] == 'u']
            und = [leaf_token(t) for t in ls if '_' in t['name']]
            pre = [leaf_token(t) for t in ls if t['p']]
            if und and pre:
                und_keys[key] = {'underscore_names': und, 'prefixed_names': pre}
    unexplained = [b for b in rest if not (len(b) > 3 and b[3][0] == 'reject' and b[3][1] in und_keys)]
    if unexplained:
        return None, {}
    if rest:
        classes.append('underscore')
        detail.update(und_keys)
    return '+'.join(classes), detail


def pred_stale(scenario, info):
    return 'stale-prefix' in (info.get('class') or '').split('+')


def pred_underscore(scenario, info):
    return 'underscore' in (info.get('class') or '').split('+')


def snippet(c, prior):
    lines = ['from openmdao.utils import units as U']
    for p in prior:
        lines.append('U._find_unit(%r)   # looked up earlier' % p)
    if c['k'] == 'unit':
        lines.append('print(repr(U._find_unit(%r)), U.simplify_unit(%r))' % (c['s']['e'], c['s']['e']))
    else:
        lines.append('print(repr(U._find_unit(%r)), repr(U._find_unit(%r)))' % (c['s']['a'], c['s']['b']))
        lines.append('print(U.is_compatible(%r, %r), U.unit_conversion(%r, %r))' % ((c['s']['a'], c['s']['b']) * 2))
    return '\n'.join(lines)


def load_replay(path, lib):
    """one stored violation: the earlier lookups (prefixed names) followed by the case, on a fresh library"""
    import json
    with open(path) as fh:
        sc = json.load(fh)['scenario']
    cases, fam = [], collections.Counter()
    for tok in sc.get('looked_up_before', []):
        rd = [r for r in lib.readings(tok) if r[0]]
        if not rd:
            raise MachineryError('replay: cannot read %r as a prefixed library unit' % tok)
        t = U(rd[0][1], rd[0][0])
        cases.append({'k': 'unit', 'fam': 'replay-history', 'e': t, 's': {'e': render(t)}})
    c = dict(k=sc['kind'], fam=sc['family'], s=sc['expr'], **sc['trees'])
    cases.append(c)
    for c in cases:
        fam[c['fam']] += 1
    return cases, fam, [(sc.get('history', 'replay'), list(range(len(cases))))]


# ------------------------------------------------------------------------------------------------ run
ABSTRACT_CFG = '''CONSTANTS
  NDim = 3
  Atoms = {"f1", "f2", "f3", "f4"}
  Atoms2 = %(atoms2)s
  Atoms3 = %(atoms3)s
  PB2 = 2
  PB3 = %(pb3)d
  EB1 = 2
  EB2 = 1
  EB3 = 1
  Offs = {"none", "a", "b"}
  EFull = %(efull)s
INIT Init
NEXT Next
INVARIANT CompatReflexive
INVARIANT CompatSymmetric
INVARIANT CompatTransitive
INVARIANT CompatIffConv
INVARIANT SelfConv
INVARIANT RoundTrip
INVARIANT Transitivity
INVARIANT Refusal
INVARIANT MulDivLaws
INVARIANT PowLaws
INVARIANT EvalDistributes
INVARIANT EvalRefusal
INVARIANT SimplifyPreserves
'''

JUDGE_CFG = '''CONSTANTS
  NDim = %d
  Atoms = {}
  Atoms2 = {}
  Atoms3 = {}
  PB2 = 0
  PB3 = 0
  EB1 = 0
  EB2 = 0
  EB3 = 0
  Offs = {}
  EFull = FALSE
INIT JInit
NEXT JNext
INVARIANT JExport
INVARIANT JLib
'''


def run(ctx):
    quick = ctx.tier == 'quick'
    import openmdao.utils.units as U_          # only to locate the shipped library file of the tree under test
    ini = os.path.join(os.path.dirname(U_.__file__), 'unit_library.ini')
    lib = Lib(ini)

    replay = getattr(ctx, 'replay', None)
    # ---- 1. the laws on the abstract universe (exhaustive)
    cfg = ctx.write_cfg('UnitsAbstract.cfg', ABSTRACT_CFG % {
        'atoms2': '{"f1", "f2", "f3"}' if quick else '{"f1", "f2", "f3", "f4"}',
        'atoms3': '{"f1", "f2"}' if quick else '{"f1", "f2", "f3"}',
        'pb3': 1 if quick else 2, 'efull': 'FALSE' if quick else 'TRUE'})
    abstract = None
    if not replay:
        # runs beside the judge / replay below (half of the workers each); joined before the results are used
        import threading
        abstract = {}

        def _abstract():
            try:
                abstract['r'] = ctx.tlc_check('mech/Units', cfg, timeout=3000, heap='8g', workers=WORKERS // 2)
            except BaseException as ex:                     # noqa
                abstract['exc'] = ex
        abstract['thread'] = threading.Thread(target=_abstract)
    try:
        # (the thread is started after the worker pool has been forked)
        _bind(ctx, lib, replay, quick, abstract['thread'].start if abstract else (lambda: None))
    finally:
        if abstract is not None and abstract['thread'].ident is not None:
            abstract['thread'].join()
    if abstract is not None:
        if 'exc' in abstract:
            raise abstract['exc']
        ctx.require_actions(['Choose'])


def _bind(ctx, lib, replay, quick, start_abstract):

    # ---- 2. the shipped library and the cases under the specification
    if replay:
        cases, fam, chunks = load_replay(replay, lib)
    else:
        cases, fam, prefixed = build_cases(ctx, lib)
        chunks = build_chunks(ctx, cases, random.Random(7919 * ctx.seed + 5))
    # ---- 3a. replay into units.py (observations only; judged below against TLC's expectations)
    work = [[(label, [(cases[i]['k'], cases[i]['s']) for i in idx])] for label, idx in chunks]
    res = pmap(_worker, work, nproc=WORKERS)
    start_abstract()

    keys = ('e', 'a', 'b', 'c')
    payload = {'base': lib.base, 'layers': lib.layers,
               'cases': [dict([('k', c['k'])] + [(k, c[k]) for k in keys if k in c]) for c in cases]}
    path = ctx.write_json('units_cases.json', payload)
    jcfg = ctx.write_cfg('UnitsJudge.cfg', JUDGE_CFG % len(lib.base))
    r = ctx.tlc_check('mech/UnitsJudge', jcfg, env={'UNITS_CASES': path}, timeout=3000, heap='8g', coverage=False,
                      workers=WORKERS // 2)
    verdict = {e['tid']: e['v'] for e in r.exports('EXP')}
    if len(verdict) != len(cases):
        raise MachineryError('UnitsJudge returned %d verdicts for %d cases:\n%s' % (len(verdict), len(cases), r.tail()))
    libs = r.exports('LIB')
    if len(libs) != 1 or set(libs[0]) != set(lib.names):
        raise MachineryError('UnitsJudge did not print the library table')
    # the oracle is itself checked: TLC's symbolic table / expectations, evaluated numerically, equal the harness's
    # own exact evaluation of the defining expressions (a disagreement is a machinery error, not a violation)
    for n in lib.names:
        t = exp_unit_tlc(lib, libs[0][n])
        p, f, o = lib.table[n]
        if t['err'] or t['pow'] != tuple(p) or t['fac'] != f or t['off'] != (o or 0):
            raise MachineryError('library unit %s: TLC table %r differs from the reference %r' % (n, t, lib.table[n]))
    exps = []
    for i, c in enumerate(cases):
        e = expectation_tlc(lib, c, verdict[i + 1])
        if e != expectation_ref(lib, c):
            raise MachineryError('case %r: TLC expectation %r differs from the reference %r' %
                                 (c['s'], e, expectation_ref(lib, c)))
        exps.append(e)

    # ---- 3b. judge the observations
    ctx.register_predicates({FINDING_STALE: pred_stale, FINDING_UNDERSCORE: pred_underscore})
    nobs = ncmp = 0
    skipped = collections.Counter()
    classes = collections.Counter()
    for (label, idx), rs in zip(chunks, res):
        obs = rs[0]
        if len(obs) != len(idx):
            raise MachineryError('worker returned %d observations for %d cases' % (len(obs), len(idx)))
        prior = set()
        for i, o in zip(idx, obs):
            c, e = cases[i], exps[i]
            nobs += 1
            bad = compare(c, e, o)
            ncmp += 8 if c['k'] == 'unit' else 22 if c['k'] == 'pair' else 39
            if c.get('skip'):
                skipped[c.pop('skip')] += 1
            if c['fam'] not in ('lib-unit',):
                ctx.note_nontrivial((c['fam'],) + tuple(sorted(c['s'].items())))
            if bad:
                cls, detail = classify(lib, c, prior, bad, o)
                classes[cls or 'unclassified'] += 1
                pr = detail.get('prior', [])
                scen = {'history': label, 'kind': c['k'], 'family': c['fam'], 'expr': c['s'],
                        'looked_up_before': pr, 'detail': detail,
                        'trees': {k: c[k] for k in ('e', 'a', 'b', 'c') if k in c}}
                ctx.violation(scen, bad[0][1], bad[0][2], bad[0][0] + (' [+%d more clauses]' % (len(bad) - 1) if len(bad) > 1 else ''),
                              snippet=snippet(c, pr), info={'class': cls, 'clauses': [b[0] for b in bad]})
            prior.update(prefixed_tokens(c))

    # ---- 4. informational probes outside the property (recorded, never a violation)
    ctx.extra['observations'] = _probes()
    ctx.extra['families'] = dict(fam)
    ctx.extra['histories'] = len(chunks)
    ctx.extra['violation_classes'] = dict(classes)
    ctx.extra['not_compared'] = dict(skipped)
    ctx.impl = nobs
    ctx.evaluations = ncmp
    ctx.exhaustive = False
    for fam_name in ('lib-pair', 'comp-pair', 'offset-triple') + ((cases[-1]['fam'],) if replay else ()):
        for i, c in enumerate(cases):
            if c['fam'] == fam_name:
                v = verdict[i + 1]
                ctx.sample({'family': fam_name, 'expr': c['s'], 'spec': {k: v[k] for k in v if k != 'laws'}})
                break
    ctx.rule = ('laws: TLC exhaustively on the abstract universe of Units.tla (3 dimensions, 4 factor atoms, offsets '
                '{none,a,b}: single units with exponents -2..2, pairs/triples of power vectors, pairs/triples of factors, '
                'all expression trees of depth <= 2 over 7 leaves). Binding: unit_library.ini parsed by the harness, the '
                'table and every case derived symbolically by TLC (UnitsJudge), replayed into units.py: every library unit, '
                'ALL %d compatible pairs of library units, %d sampled incompatible pairs, %d prefixed forms (every prefix '
                'on every base unit whose string has one reading, replayed in 3 lookup orders), the offset units (all '
                'ordered triples in the temperature class), refusal cases, %d seeded random composite expressions of depth '
                '1-3 (products, quotients, integer powers, parentheses, prefixes, bare numbers) each with a compatible '
                'partner / a triple, %d library triples; non-trivial = distinct case outside the plain library-unit family'
                % (fam['lib-pair'], fam['lib-incompatible'], fam['prefixed'], fam['comp-unit'], fam['lib-triple']))
    if replay:
        ctx.rule = 'replay of %s: %s' % (replay, dict(fam))
    ctx.assumptions = [
        'float round-off judged at 1e-12 relative (offsets: relative to the magnitude of the offset terms)',
        'composite expressions are restricted to factors within 1e-100..1e100 per subtree (no float overflow) and '
        'integer exponents in -3..3; inverse-integer (float) exponents are not exercised',
        'number / offset-unit (e.g. 1/degC) is accepted by PhysicalUnit.__rtruediv__ with the offset dropped although '
        'the spec (and __mul__/__truediv__/__pow__) refuse offset units; this is outside the property and only recorded '
        'under coverage.observations',
        'simplify_unit results that consist of numbers only (e.g. "2" for 2*m/m) are counted under not_compared',
        'prefixed names are generated only where the string has exactly one reading over the library names '
        '(library names win over prefixes as documented in unit_library.ini)',
        'private attributes _powers/_factor/_offset of PhysicalUnit are read to observe _find_unit',
    ]


def _probes():
    """accepted-by-the-library expressions the spec refuses; recorded as observations only"""
    import subprocess
    import sys
    code = ('import warnings; warnings.filterwarnings("ignore")\n'
            'from openmdao.utils import units as U\n'
            'for e in ["1/degC", "2/degF"]:\n'
            '    try:\n'
            '        u = U._find_unit(e); print(e, "->", None if u is None else (u._factor, u._offset, list(u._powers)))\n'
            '    except Exception as ex:\n'
            '        print(e, "-> raises", type(ex).__name__)\n')
    try:
        p = subprocess.run([sys.executable, '-c', code], stdout=subprocess.PIPE, stderr=subprocess.DEVNULL, text=True,
                           timeout=120)
        return p.stdout.strip().splitlines()
    except Exception as e:                                  # noqa
        return ['probe failed: %s' % e]
