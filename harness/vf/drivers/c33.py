"""C33 - vector arithmetic and scaling round-trips match NumPy.

Spec: spec/mech/Vector.tla (+ VectorMC.tla): a vector is a layout (three variables of sizes 1-2, one of them 2-D) over
flat data of exact rationals; the actions are set_val (scalar, array, indexed), set_vec, +=, -=, *= (scalar and
elementwise), += constant, add_scal_vec, named writes (x[name] = .., through the array returned by x[name],
set_var with NumPy indices / flat), scale_to_norm / scale_to_phys in fwd and rev mode with per-entry (a0, a1) incl.
negative a1, for nonlinear vectors (adder + scaler) and linear vectors (scaler; rev = the dual scaling).  TLC checks
ViewsTile, ScaleRoundTrip, DualPairing, NormLaw, NamedWriteFrame, OtherUntouched exhaustively to depth 2 and again along
random histories of depth 5, which carry after every action the exact flat data, every named view,
dot(other) and norm^2.

Binding: every history is replayed on the root vectors of a real Problem with the same layout and ref / ref0 / res_ref
(_outputs with _residuals, _doutputs with _dresiduals as the second vector and vice versa) and everything is compared
after every action: exactly where the expectation is an integer vector, to 1e-12 otherwise."""
import json
import os

import numpy as np

from ..tlc import MachineryError
from ..util import pmap, quiet, split

NONE = 99999
RTOL = 1e-12
ACTIONS = ['SetValScalar', 'SetValArr', 'SetValIdx', 'SetVec', 'IAdd', 'ISub', 'IAddConst', 'IMul', 'OpIdx', 'IMulVec', 'AddScalVec',
           'SetName', 'SetVarIdx', 'ScaleToNorm', 'ScaleToPhys']
# vector under test, second vector
VECS = {'nl_out': ('_outputs', '_residuals'), 'nl_res': ('_residuals', '_outputs'),
        'ln_out': ('_doutputs', '_dresiduals'), 'ln_res': ('_dresiduals', '_doutputs')}


def fr(q):
    return q[0] / q[1]


def py_idx(t):
    k = t['k']
    if k == 'int':
        return t['i']
    if k == 'slice':
        return slice(*[None if t[x] == NONE else t[x] for x in ('a', 'b', 's')])
    if k == 'arr':
        return list(t['v'])
    if k == 'tuple':
        return tuple(py_idx(x) for x in t['t'])
    raise MachineryError('index term %r' % (t,))


def var_names(L):
    # the first two variables live in component c1, the third in c2: the root vector spans two components
    return ['c1.%s' % L['vars'][0]['n'], 'c1.%s' % L['vars'][1]['n'], 'c2.%s' % L['vars'][2]['n']]


def build(L, alloc_complex):
    import openmdao.api as om

    class Comp(om.ExplicitComponent):
        def __init__(self, decl):
            super().__init__()
            self.decl = decl

        def setup(self):
            for n, shape, ref, ref0, rr in self.decl:
                self.add_output(n, val=np.zeros(shape), ref=ref, ref0=ref0, res_ref=rr)

        def compute(self, inputs, outputs):
            pass

    def shaped(vals, shape):
        v = np.array([fr(q) for q in vals]).reshape(shape)
        return float(v.flat[0]) if np.all(v == v.flat[0]) else v

    decl, start = [], 0
    for var in L['vars']:
        shape = tuple(var['shape'])
        n = int(np.prod(shape))
        a0, a1, rr = (L[k][start:start + n] for k in ('a0', 'a1', 'rr'))
        ref = [[x[0] * y[1] + y[0] * x[1], x[1] * y[1]] for x, y in zip(a0, a1)]        # ref = a0 + a1
        decl.append((var['n'], shape, shaped(ref, shape), shaped(a0, shape), shaped(rr, shape)))
        start += n
    p = om.Problem()
    p.model.add_subsystem('c1', Comp(decl[:2]))
    p.model.add_subsystem('c2', Comp(decl[2:]))
    p.setup(force_alloc_complex=alloc_complex)
    p.final_setup()
    return p


def near(got, want_q, exact):
    """exact while the whole history has stayed in the integers, 1e-12 relative after a division has happened"""
    want = np.array([fr(q) for q in want_q], dtype=float)
    got = np.asarray(got, dtype=float).ravel()
    if got.shape != want.shape:
        return False
    if exact:
        return bool(np.array_equal(got, want))
    return bool(np.all(np.abs(got - want) <= RTOL * (1.0 + np.abs(want))))


def act(X, Y, names, L, a):
    n = a['n']
    other = lambda: X if a.get('src') == 'self' else Y      # noqa: E731
    if n == 'set_val':
        X.set_val(fr(a['c']))
    elif n == 'set_val_arr':
        X.set_val(np.array([fr(q) for q in a['arr']]))
    elif n == 'set_val_idx':
        X.set_val(fr(a['c']), idxs=py_idx(a['idx']))
    elif n == 'set_vec':
        X.set_vec(other())
    elif n == 'iadd':
        X += other()
    elif n == 'isub':
        X -= other()
    elif n == 'iadd_const':
        X += fr(a['c'])
    elif n == 'imul':
        X *= fr(a['c'])
    elif n == 'op_idx':
        getattr(X, a['op'])(fr(a['c']), idxs=py_idx(a['idx']))
    elif n == 'imul_vec':
        X *= other()
    elif n == 'add_scal_vec':
        X.add_scal_vec(fr(a['c']), other())
    elif n == 'set_name':
        name = names[a['var'] - 1]
        shape = tuple(L['vars'][a['var'] - 1]['shape'])
        val = fr(a['vals'][0]) if a['whole'] == 'scalar' else np.array([fr(q) for q in a['vals']]).reshape(shape)
        if a['via'] == 'setitem':
            X[name] = val
        else:
            view = X[name]
            view[...] = val
    elif n == 'set_var':
        X.set_var(names[a['var'] - 1], fr(a['c']), idxs=py_idx(a['idx']), flat=bool(a['flat']))
    elif n == 'scale_to_norm':
        X.scale_to_norm(a['mode'])
    elif n == 'scale_to_phys':
        X.scale_to_phys(a['mode'])
    else:
        raise MachineryError('unknown action %r' % (a,))


def replay(arg):
    L, b, alloc = arg
    import traceback
    p = build(L, alloc)
    names = var_names(L)
    xn, yn = VECS[b['kind']]
    X, Y = getattr(p.model, xn), getattr(p.model, yn)
    y0 = np.array([fr(q) for q in b['y0']])
    Y.set_val(y0)
    X.set_val(np.array([fr(q) for q in b['x0']]))
    exact = True
    for k, ev in enumerate(b['h']):
        a = ev['a']
        # integer arithmetic is exact in floating point; once a scaling has divided, round-off of 1 ulp per operation is allowed
        exact = exact and not a['n'].startswith('scale_to') and all(q[1] == 1 for q in ev['data'])

        def bad(clause, want, got):
            return {'step': k, 'action': a, 'clause': clause, 'want': want, 'got': got}
        try:
            act(X, Y, names, L, a)
        except MachineryError:
            raise
        except Exception as e:
            fr_ = traceback.extract_tb(e.__traceback__)[-1]
            return bad('%s raised %s (%s:%d)' % (a['n'], type(e).__name__, os.path.basename(fr_.filename), fr_.lineno),
                       'accepted', '%s: %s' % (type(e).__name__, str(e)[:300]))
        data = X.asarray()
        if not near(data, ev['data'], exact):
            return bad('flat data after %s' % a['n'], [fr(q) for q in ev['data']], [float(v) for v in data])
        if not np.array_equal(Y.asarray(), y0):
            return bad('second vector changed by %s' % a['n'], y0.tolist(), [float(v) for v in Y.asarray()])
        for vi, name in enumerate(names):
            got = X[name]
            shape = tuple(L['vars'][vi]['shape'])
            if tuple(np.shape(got)) != shape or not near(got, ev['views'][vi], exact):
                return bad('named view %s after %s' % (name, a['n']),
                           {'shape': list(shape), 'values': [fr(q) for q in ev['views'][vi]]},
                           {'shape': list(np.shape(got)), 'values': [float(v) for v in np.ravel(got)]})
        # the vectors of the two components are windows on the same data
        for comp, vis in ((p.model.c1, (0, 1)), (p.model.c2, (2,))):
            sub = getattr(comp, xn).asarray()
            want = [q for vi in vis for q in ev['views'][vi]]
            if not near(sub, want, exact):
                return bad('data of %s.%s after %s' % (comp.pathname, xn, a['n']), [fr(q) for q in want], [float(v) for v in sub])
        if ev['dot'] != [0, 0]:
            d = float(X.dot(Y))
            if abs(d - fr(ev['dot'])) > RTOL * (1 + abs(fr(ev['dot']))):
                return bad('dot(other) after %s' % a['n'], fr(ev['dot']), d)
            n2, dd = float(X.get_norm()) ** 2, float(X.dot(X))
            w = fr(ev['nrm2'])
            if abs(n2 - w) > 4 * RTOL * (1 + abs(w)) or abs(dd - w) > RTOL * (1 + abs(w)):
                return bad('get_norm()**2 / dot(self) after %s' % a['n'], w, [n2, dd])
    return None


def _worker(chunk):
    quiet()
    return [replay(c) for c in chunk]


def slim(b, upto=None):
    h = b['h'] if upto is None else b['h'][:upto + 1]
    return {'kind': b['kind'], 'x0': [fr(q) for q in b['x0']], 'y0': [fr(q) for q in b['y0']],
            'actions': [e['a'] for e in h]}


def run(ctx):
    quick = ctx.tier == 'quick'
    workers = int(os.environ.get('VF_C33_WORKERS', min(16, os.cpu_count() or 1)))
    ctx.register_predicates({})
    if getattr(ctx, 'replay', None):
        # TLC recomputes the observables along exactly the stored history, then the history is run on the real vectors
        from ..tlc import to_tla
        with open(ctx.replay) as fh:
            scn = json.load(fh)['scenario']
        b = scn['behaviour']
        script = [e['a'] for e in b['h']]
        mod = os.path.join(ctx.work, 'VectorReplay.tla')
        with open(mod, 'w') as fh:
            fh.write('---- MODULE VectorReplay ----\nEXTENDS VectorMC\nRLayouts == <<%s>>\nScript == %s\n'
                     'ScriptInit == Init /\\ kind = %s\n'
                     'ScriptNext == Len(hist) < Len(Script) /\\ Do(Script[Len(hist) + 1])\n====\n'
                     % (to_tla(scn['layout']), to_tla(script), to_tla(b['kind'])))
        cfg = ctx.write_cfg('VectorReplay.cfg', 'CONSTANTS\n  Layouts <- RLayouts\n  Depth = %d\n  Record = TRUE\nINIT ScriptInit\n'
                            'NEXT ScriptNext\nINVARIANT TypeOK\nINVARIANT ViewsTile\nINVARIANT ScaleRoundTrip\nINVARIANT Export\n' % len(script))
        r = ctx.tlc_check(mod, cfg, timeout=600, workers=1, coverage=False)
        got = r.exports('EXP')
        if len(got) != 1:
            raise MachineryError('replay: the stored history is not a behaviour of the specification')
        quiet()
        f = replay((scn['layout'], got[0], scn['alloc_complex']))
        print('replay: %s' % ('agrees with the specification' if f is None else f['clause']))
        if f is not None:
            ctx.violation(scn, f['want'], f['got'], f['clause'])
        ctx.impl = 1
        ctx.evaluations = len(script)
        ctx.sample({'replayed': ctx.replay, 'agrees': f is None, 'actions': script})
        ctx.rule = 'replay of one stored scenario (observables recomputed by TLC along the stored history)'
        return
    head = 'CONSTANTS\n  Layouts <- AllLayouts\n  Depth = %d\n  Record = %s\nINIT Init\nNEXT Next\n'
    # 1. the design, exhaustively to a small depth (the observables are left out of the history: Record = FALSE)
    cfg = ctx.write_cfg('VectorMC.cfg', head % (2, 'FALSE') + 'VIEW View\nINVARIANT TypeOK\nINVARIANT ViewsTile\n'
                        'INVARIANT ScaleRoundTrip\nINVARIANT DualPairing\nINVARIANT NormLaw\nPROPERTY NamedWriteFrame\n'
                        'PROPERTY OtherUntouched\n')
    # (run without -coverage, which costs about a third of the time; the vacuity guard is taken from the histories below)
    r = ctx.tlc_check('mech/VectorMC', cfg, timeout=3000, workers=workers, coverage=False)
    layouts = r.exports('SCN')
    if not layouts:
        raise MachineryError('no layout export')
    layouts = layouts[0]
    # 2. random histories with the exact observables
    depth = 5
    ntraces = 160 if quick else 3000
    beh = []
    for nxt, num in (('Next', ntraces // 2), ('NextSolver', ntraces // 2)):
        cfg = ctx.write_cfg('VectorMC_sim_%s.cfg' % nxt, (head % (depth, 'TRUE')).replace('NEXT Next', 'NEXT ' + nxt) +
                            'INVARIANT Export\nINVARIANT TypeOK\nINVARIANT ViewsTile\nINVARIANT ScaleRoundTrip\nINVARIANT DualPairing\nINVARIANT NormLaw\n')
        x = ctx.tlc_run('mech/VectorMC', cfg, simulate='num=%d' % num, depth=depth + 1, seed=ctx.seed + 1, workers=1,
                        timeout=900 if quick else 3000)
        if x.error or 'traces generated' not in x.out:
            raise MachineryError('simulation failed:\n' + x.tail())
        got = x.exports('EXP')
        if len(got) < num:
            raise MachineryError('simulation produced only %d behaviours:\n%s' % (len(got), x.tail()))
        beh.extend(got)
    # vacuity guard: every action of the specification occurs in the histories that are bound to the implementation
    SPEC_OF = {'set_val': 'SetValScalar', 'set_val_arr': 'SetValArr', 'set_val_idx': 'SetValIdx', 'set_vec': 'SetVec', 'iadd': 'IAdd',
               'isub': 'ISub', 'iadd_const': 'IAddConst', 'imul': 'IMul', 'op_idx': 'OpIdx', 'imul_vec': 'IMulVec', 'add_scal_vec': 'AddScalVec',
               'set_name': 'SetName', 'set_var': 'SetVarIdx', 'scale_to_norm': 'ScaleToNorm', 'scale_to_phys': 'ScaleToPhys'}
    for b in beh:
        for e in b['h']:
            k = SPEC_OF[e['a']['n']]
            ctx.coverage_actions[k] = ctx.coverage_actions.get(k, 0) + 1
    ctx.require_actions(ACTIONS)
    seen, uniq = set(), []
    for b in beh:
        k = json.dumps(b, sort_keys=True)
        if k not in seen:
            seen.add(k)
            uniq.append(b)
    beh = uniq
    jobs = [(layouts[b['ly'] - 1], b, bool(j % 2)) for j, b in enumerate(beh)]
    nproc = min(workers, 16)
    chunks = [c for c in split(list(range(len(jobs))), nproc * 4) if c]
    res = pmap(_worker, [[jobs[j] for j in c] for c in chunks], nproc)
    order = [j for c in chunks for j in c]
    nsteps = 0
    kinds = {}
    for j, f in zip(order, [y for ys in res for y in ys]):
        L, b, alloc = jobs[j]
        nsteps += len(b['h']) if f is None else f['step'] + 1
        kinds[b['kind']] = kinds.get(b['kind'], 0) + 1
        names = [e['a']['n'] for e in b['h']]
        if any(n.startswith('scale_to') for n in names) and any(n in ('set_name', 'set_var', 'set_val_idx') for n in names):
            ctx.note_nontrivial(json.dumps(slim(b), sort_keys=True) + L['name'])
        if f is not None:
            scn = dict(slim(b, f['step']), layout=L, alloc_complex=alloc, step=f['step'],
                       behaviour=dict(b, h=b['h'][:f['step'] + 1]))
            ctx.violation(scn, f['want'], f['got'], '%s [%s of layout %s, step %d]' % (f['clause'], VECS[b['kind']][0], L['name'], f['step']),
                          snippet='replay with: ./check C33 --replay <this file>', info={'failed': f})
    ctx.impl = len(jobs)
    ctx.evaluations = nsteps
    ctx.exhaustive = False
    ctx.extra['actions_replayed'] = nsteps
    ctx.extra['behaviours_per_kind'] = kinds
    for b in beh[:2]:
        ctx.sample({'layout': layouts[b['ly'] - 1]['name'], 'kind': b['kind'],
                    'history': [{'a': e['a'], 'data': [fr(q) for q in e['data']]} for e in b['h']]})
    ctx.rule = ('TLC -simulate histories of depth %d over 14 vector actions (set_val scalar/array/indexed, set_vec, +=, -=, *=, '
                'elementwise *=, += constant, add_scal_vec with the other vector or itself, named writes whole/indexed/flat and '
                'through the returned view, scale_to_norm/scale_to_phys fwd and rev) on 2 layouts x 4 root vectors '
                '(_outputs, _residuals, _doutputs, _dresiduals; every second Problem set up with force_alloc_complex); after '
                'every action the flat data, all named views (values and shapes), the component-level vectors (windows on the same data), '
                'dot(other), get_norm()**2 and dot(self) are '
                'compared; non-trivial = histories with a scaling action and an indexed or named write' % depth)
    ctx.assumptions = ['real arithmetic: the vectors are not switched to complex-step mode', 'DefaultVector, serial',
                       'reverse-mode scaling is specified for linear vectors only (OpenMDAO never scales a nonlinear vector in rev mode)',
                       'products are formed only from vectors with numerators <= 1000 and denominators <= 8 (TLC integers are 32 bit)',
                       'input vectors (unit conversion combined with scaling) are outside this check']
