"""C33 - vector arithmetic and scaling round-trips match NumPy.

Spec: spec/mech/Vector.tla (+ VectorMC.tla): a vector is a layout (three variables of sizes 1-2, one of them 2-D) over
flat data of exact rationals; the actions are set_val (scalar, array, indexed), set_vec, +=, -=, *= (scalar and
elementwise), += constant, add_scal_vec, named writes (x[name] = .., through the array returned by x[name],
set_var with NumPy indices / flat), scale_to_norm / scale_to_phys in fwd and rev mode with per-entry (a0, a1) incl.
negative a1, for nonlinear vectors (adder + scaler) and linear vectors (scaler; rev = the dual scaling).  TLC checks
ViewsTile, ScaleRoundTrip, DualPairing, NormLaw, NamedWriteFrame, OtherUntouched exhaustively to depth 2 and again along
random histories of depth 5, which carry after every action the exact flat data, every named view,
dot(other) and norm^2.

Complex-step mode is part of the specification: a vector allocated complex stores two planes (real, imaginary);
Vector.set_complex_step_mode (action CsSwitch) only changes which array the vector is (complex in the mode, the real
plane out of it); ARITHMETIC acts on the visible array (complex arithmetic on both planes in the mode, the hidden imaginary
plane untouched out of it), SET (set_val, set_vec, x[name] = .., set_var) assigns the storage, so real data clear the
imaginary part of the addressed entries in and out of the mode; complex operands are used in the mode.  Additional laws
HiddenPlane, ModeSwitchFrame.  The histories come from three alphabets (variable fam): all actions, what a solver does
around a scaling, and a complex step (NextCS: mode on / off, complex operands in the mode, real data set and combined out
of it).  Histories of complex-allocated vectors start with the imaginary plane an earlier complex step has left behind.
Quick tier: exhaustive depth 2 for real storage and 1 for complex storage; thorough: 2 for both.

Binding: every history is replayed on the root vectors of a real Problem with the same layout and ref / ref0 / res_ref
(_outputs with _residuals, _doutputs with _dresiduals as the second vector and vice versa) and everything is compared
after every action: exactly where the expectation is an integer vector, to 1e-12 otherwise.  Both planes of the storage are
compared after every action: in the mode asarray() is the complex array; out of the mode asarray() must be real and the hidden plane is
read by switching the mode on and off again (the specification says the switch changes no data).  Problems with complex
vectors carry a Newton solver on the root so that the linear vectors are allocated complex as well."""
import json
import os

import numpy as np

from ..tlc import MachineryError
from ..util import pmap, quiet, split

NONE = 99999
RTOL = 1e-12
ACTIONS = ['SetValScalar', 'SetValArr', 'SetValIdx', 'SetVec', 'IAdd', 'ISub', 'IAddConst', 'IMul', 'OpIdx', 'IMulVec', 'AddScalVec',
           'SetName', 'SetVarIdx', 'ScaleToNorm', 'ScaleToPhys', 'CsSwitch']
# SET operations: assign the storage (both planes)
SETS = ('set_val', 'set_val_arr', 'set_val_idx', 'set_vec', 'set_name', 'set_var')
EPS = 2.3e-16
# vector under test, second vector
VECS = {'nl_out': ('_outputs', '_residuals'), 'nl_res': ('_residuals', '_outputs'),
        'ln_out': ('_doutputs', '_dresiduals'), 'ln_res': ('_dresiduals', '_doutputs')}


def fr(q):
    return q[0] / q[1]


def cval(c, ci):
    """a scalar operand: a float, or a complex number when the specification gives an imaginary part"""
    return complex(fr(c), fr(ci)) if ci[0] != 0 else fr(c)


def carr(re, im):
    a = np.array([fr(q) for q in re])
    return a + 1j * np.array([fr(q) for q in im]) if any(q[0] != 0 for q in im) else a


def py_idx(t):
    k = t['k']
    if k == 'int':
        return t['i']
    if k == 'slice':
        return slice(*[None if t[x] == NONE else t[x] for x in ('a', 'b', 's')])
    if k == 'arr':
        return list(t['v'])
    if k == 'tuple':
        return tuple(py_idx(x) for x in t['t'])
    raise MachineryError('index term %r' % (t,))


def var_names(L):
    # the first two variables live in component c1, the third in c2: the root vector spans two components
    return ['c1.%s' % L['vars'][0]['n'], 'c1.%s' % L['vars'][1]['n'], 'c2.%s' % L['vars'][2]['n']]


def build(L, alloc_complex):
    import openmdao.api as om

    class Comp(om.ExplicitComponent):
        def __init__(self, decl):
            super().__init__()
            self.decl = decl

        def setup(self):
            for n, shape, ref, ref0, rr in self.decl:
                self.add_output(n, val=np.zeros(shape), ref=ref, ref0=ref0, res_ref=rr)

        def compute(self, inputs, outputs):
            pass

    def shaped(vals, shape):
        v = np.array([fr(q) for q in vals]).reshape(shape)
        return float(v.flat[0]) if np.all(v == v.flat[0]) else v

    decl, start = [], 0
    for var in L['vars']:
        shape = tuple(var['shape'])
        n = int(np.prod(shape))
        a0, a1, rr = (L[k][start:start + n] for k in ('a0', 'a1', 'rr'))
        ref = [[x[0] * y[1] + y[0] * x[1], x[1] * y[1]] for x, y in zip(a0, a1)]        # ref = a0 + a1
        decl.append((var['n'], shape, shaped(ref, shape), shaped(a0, shape), shaped(rr, shape)))
        start += n
    p = om.Problem()
    p.model.add_subsystem('c1', Comp(decl[:2]))
    p.model.add_subsystem('c2', Comp(decl[2:]))
    if alloc_complex:
        # a gradient-based solver under force_alloc_complex makes OpenMDAO allocate the LINEAR vectors complex as well
        # (check_allocate_complex_ln); the model is never run
        p.model.nonlinear_solver = om.NewtonSolver(solve_subsystems=False)
        p.model.linear_solver = om.DirectSolver()
    p.setup(force_alloc_complex=alloc_complex)
    p.final_setup()
    return p


def near(got, want_q, exact, slack=0.0):
    """exact while the whole history has stayed in the integers, 1e-12 relative after a division has happened
    (slack: absolute round-off allowance, a few ulp of the largest number the history has produced)"""
    want = np.array([fr(q) for q in want_q], dtype=float)
    got = np.asarray(got, dtype=float).ravel()
    if got.shape != want.shape:
        return False
    if exact:
        return bool(np.array_equal(got, want))
    return bool(np.all(np.abs(got - want) <= RTOL * (1.0 + np.abs(want)) + slack))


def cnear(got, want_re, want_im, exact, slack=0.0):
    """both planes of a complex array (a real array has a zero imaginary plane)"""
    got = np.asarray(got)
    return near(got.real, want_re, exact, slack) and near(got.imag if np.iscomplexobj(got) else np.zeros(got.shape), want_im, exact, slack)


def planes(a):
    a = np.ravel(np.asarray(a))
    return {'re': [float(v) for v in a.real], 'im': [float(v) for v in a.imag]} if np.iscomplexobj(a) else [float(v) for v in a]


def wplanes(re, im):
    return {'re': [fr(q) for q in re], 'im': [fr(q) for q in im]} if any(q[0] != 0 for q in im) else [fr(q) for q in re]


def act(X, Y, names, L, a, switch):
    n = a['n']
    other = lambda: X if a.get('src') == 'self' else Y      # noqa: E731
    if n == 'set_val':
        X.set_val(cval(a['c'], a['ci']))
    elif n == 'set_val_arr':
        X.set_val(carr(a['arr'], a['arri']))
    elif n == 'set_val_idx':
        X.set_val(cval(a['c'], a['ci']), idxs=py_idx(a['idx']))
    elif n == 'cs_mode':
        switch(bool(a['on']))
    elif n == 'set_vec':
        X.set_vec(other())
    elif n == 'iadd':
        X += other()
    elif n == 'isub':
        X -= other()
    elif n == 'iadd_const':
        X += cval(a['c'], a['ci'])
    elif n == 'imul':
        X *= cval(a['c'], a['ci'])
    elif n == 'op_idx':
        getattr(X, a['op'])(cval(a['c'], a['ci']), idxs=py_idx(a['idx']))
    elif n == 'imul_vec':
        X *= other()
    elif n == 'add_scal_vec':
        X.add_scal_vec(cval(a['c'], a['ci']), other())
    elif n == 'set_name':
        name = names[a['var'] - 1]
        shape = tuple(L['vars'][a['var'] - 1]['shape'])
        val = cval(a['vals'][0], a['valsi'][0]) if a['whole'] == 'scalar' else carr(a['vals'], a['valsi']).reshape(shape)
        if a['via'] == 'setitem':
            X[name] = val
        else:
            view = X[name]
            view[...] = val
    elif n == 'set_var':
        X.set_var(names[a['var'] - 1], cval(a['c'], a['ci']), idxs=py_idx(a['idx']), flat=bool(a['flat']))
    elif n == 'scale_to_norm':
        X.scale_to_norm(a['mode'])
    elif n == 'scale_to_phys':
        X.scale_to_phys(a['mode'])
    else:
        raise MachineryError('unknown action %r' % (a,))


def replay(arg):
    L, b, alloc = arg
    import traceback
    p = build(L, alloc)
    names = var_names(L)
    xn, yn = VECS[b['kind']]
    X, Y = getattr(p.model, xn), getattr(p.model, yn)
    subs = [(comp, vis, getattr(comp, xn)) for comp, vis in ((p.model.c1, (0, 1)), (p.model.c2, (2,)))]

    def switch(on):
        # Vector.set_complex_step_mode on both root vectors and on the component-level vectors of the vector under test
        # (every vector object has its own flag; a System switches all of its vectors together)
        for v in [X, Y] + [sv for _c, _v, sv in subs]:
            v.set_complex_step_mode(on)

    y0 = carr(b['y0'], b['yi0'])
    x0 = carr(b['x0'], b['xi0'])
    if alloc:
        # an earlier complex step: complex values are written in the mode, then the mode is left
        switch(True)
        Y.set_val(y0)
        X.set_val(x0)
        switch(False)
    else:
        Y.set_val(y0)
        X.set_val(x0)
    mode = bool(b['cs0'])
    if mode:
        switch(True)

    def storage(V):
        """(visible array, complete storage); out of the mode the storage is read by switching the mode on and off"""
        vis = V.asarray()
        if mode or not alloc:
            return vis, np.array(vis)
        V.set_complex_step_mode(True)
        full = V.asarray(copy=True)
        V.set_complex_step_mode(False)
        return vis, full

    exact = True
    big = max(abs(fr(q)) for k_ in ('x0', 'xi0', 'y0', 'yi0') for q in b[k_])
    for k, ev in enumerate(b['h']):
        a = ev['a']
        # integer arithmetic is exact in floating point; once a scaling has divided, round-off of 1 ulp per operation is allowed
        exact = exact and not a['n'].startswith('scale_to') and all(q[1] == 1 for q in ev['data'] + ev['datai'])
        big = max([big] + [abs(fr(q)) for q in ev['data'] + ev['datai']])
        slack = 16 * EPS * big

        def bad(clause, want, got):
            return {'step': k, 'action': a, 'clause': clause, 'want': want, 'got': got, 'cs': mode}
        try:
            act(X, Y, names, L, a, switch)
        except MachineryError:
            raise
        except Exception as e:
            fr_ = traceback.extract_tb(e.__traceback__)[-1]
            return bad('%s raised %s (%s:%d)' % (a['n'], type(e).__name__, os.path.basename(fr_.filename), fr_.lineno),
                       'accepted', '%s: %s' % (type(e).__name__, str(e)[:300]))
        mode = bool(ev['cs'])
        where = '%s%s' % (a['n'], ' in complex-step mode' if mode else '')
        data, full = storage(X)
        if bool(np.iscomplexobj(data)) != mode:
            return bad('dtype of asarray() after %s' % where, 'complex' if mode else 'float', str(data.dtype))
        if not cnear(data, ev['data'], ev['datai'] if mode else [[0, 1]] * len(ev['data']), exact, slack):
            return bad('flat data after %s' % where, wplanes(ev['data'], ev['datai'] if mode else []), planes(data))
        if not cnear(full, ev['data'], ev['datai'], exact, slack):
            return bad('storage (real and imaginary plane, read in complex-step mode) after %s' % where,
                       wplanes(ev['data'], ev['datai']), planes(full))
        ydata, yfull = storage(Y)
        if not np.array_equal(ydata, y0 if mode else y0.real) or not np.array_equal(yfull, y0):
            return bad('second vector changed by %s' % where, planes(y0), planes(yfull))
        for vi, name in enumerate(names):
            got = X[name]
            shape = tuple(L['vars'][vi]['shape'])
            wim = ev['viewsi'][vi] if mode else [[0, 1]] * len(ev['views'][vi])
            if tuple(np.shape(got)) != shape or bool(np.iscomplexobj(got)) != mode or not cnear(got, ev['views'][vi], wim, exact, slack):
                return bad('named view %s after %s' % (name, where),
                           {'shape': list(shape), 'values': wplanes(ev['views'][vi], wim)},
                           {'shape': list(np.shape(got)), 'values': planes(got)})
        # the vectors of the two components are windows on the same data
        for comp, vis, sv in subs:
            sub = sv.asarray()
            want = [q for vi in vis for q in ev['views'][vi]]
            wim = [q for vi in vis for q in ev['viewsi'][vi]] if mode else [[0, 1]] * len(want)
            if not cnear(sub, want, wim, exact, slack):
                return bad('data of %s.%s after %s' % (comp.pathname, xn, where), wplanes(want, wim), planes(sub))
        if ev['nrm2'] != [0, 0]:
            # np.dot / np.linalg.norm of the visible arrays; round-off relative to the sum of the magnitudes of the terms
            scale = 1.0 + float(np.abs(data) @ np.abs(ydata)) + float(np.abs(data) @ np.abs(data))
            tol = RTOL * scale

            def cq(z):
                return complex(fr(z[0]), fr(z[1]))
            d, dd, n2 = complex(X.dot(Y)), complex(X.dot(X)), float(X.get_norm()) ** 2
            if abs(d - cq(ev['dot'])) > tol:
                return bad('dot(other) after %s' % where, cq(ev['dot']), d)
            w = fr(ev['nrm2'])
            if abs(n2 - w) > 4 * tol or abs(dd - cq(ev['dself'])) > tol:
                return bad('get_norm()**2 / dot(self) after %s' % where, [w, cq(ev['dself'])], [n2, dd])
    return None


def _worker(chunk):
    quiet()
    return [replay(c) for c in chunk]


def slim(b, upto=None):
    h = b['h'] if upto is None else b['h'][:upto + 1]
    return {'kind': b['kind'], 'alloc_complex': bool(b['alloc']), 'complex_step_mode_at_start': bool(b['cs0']),
            'x0': wplanes(b['x0'], b['xi0']), 'y0': wplanes(b['y0'], b['yi0']), 'actions': [e['a'] for e in h]}


def run(ctx):
    quick = ctx.tier == 'quick'
    workers = int(os.environ.get('VF_C33_WORKERS', min(16, os.cpu_count() or 1)))
    ctx.register_predicates({})
    if getattr(ctx, 'replay', None):
        # TLC recomputes the observables along exactly the stored history, then the history is run on the real vectors
        from ..tlc import to_tla
        with open(ctx.replay) as fh:
            scn = json.load(fh)['scenario']
        b = scn['behaviour']
        script = [e['a'] for e in b['h']]
        mod = os.path.join(ctx.work, 'VectorReplay.tla')
        with open(mod, 'w') as fh:
            fh.write('---- MODULE VectorReplay ----\nEXTENDS VectorMC\nRLayouts == <<%s>>\nScript == %s\n'
                     'ScriptInit == InitAll /\\ kind = %s /\\ alloc = %s /\\ cs = %s\n'
                     'ScriptNext == Len(hist) < Len(Script) /\\ Do(Script[Len(hist) + 1])\n====\n'
                     % (to_tla(scn['layout']), to_tla(script), to_tla(b['kind']), to_tla(bool(b['alloc'])), to_tla(bool(b['cs0']))))
        cfg = ctx.write_cfg('VectorReplay.cfg', 'CONSTANTS\n  Layouts <- RLayouts\n  Depth = %d\n  DepthC = %d\n  Record = TRUE\nINIT ScriptInit\n'
                            'NEXT ScriptNext\nINVARIANT TypeOK\nINVARIANT ViewsTile\nINVARIANT ScaleRoundTrip\nINVARIANT Export\n'
                            'PROPERTY HiddenPlane\nPROPERTY ModeSwitchFrame\n' % (len(script), len(script)))
        r = ctx.tlc_check(mod, cfg, timeout=600, workers=1, coverage=False)
        got = r.exports('EXP')
        if len(got) != 1:
            raise MachineryError('replay: the stored history is not a behaviour of the specification')
        quiet()
        f = replay((scn['layout'], got[0], scn['alloc_complex']))
        print('replay: %s' % ('agrees with the specification' if f is None else f['clause']))
        if f is not None:
            ctx.violation(scn, f['want'], f['got'], f['clause'])
        ctx.impl = 1
        ctx.evaluations = len(script)
        ctx.sample({'replayed': ctx.replay, 'agrees': f is None, 'actions': script})
        ctx.rule = 'replay of one stored scenario (observables recomputed by TLC along the stored history)'
        return
    head = 'CONSTANTS\n  Layouts <- AllLayouts\n  Depth = %d\n  DepthC = %d\n  Record = %s\nINIT %s\nNEXT %s\n'
    laws = ('INVARIANT TypeOK\nINVARIANT ViewsTile\nINVARIANT ScaleRoundTrip\nINVARIANT DualPairing\nINVARIANT NormLaw\n'
            'PROPERTY NamedWriteFrame\nPROPERTY OtherUntouched\nPROPERTY HiddenPlane\nPROPERTY ModeSwitchFrame\n')
    # 1. the design, exhaustively to a small depth (the observables are left out of the history: Record = FALSE).
    #    quick: real vectors to depth 2, complex-allocated vectors (in and out of the mode) to depth 1 - their longer
    #    histories are checked against the same laws along the simulated behaviours below; thorough: everything to depth 2
    # (run without -coverage, which costs about a third of the time; the vacuity guard is taken from the histories below)
    cfg = ctx.write_cfg('VectorMC.cfg', head % (2, 1 if quick else 2, 'FALSE', 'InitAll', 'Next') + 'VIEW View\n' + laws)
    r = ctx.tlc_check('mech/VectorMC', cfg, timeout=3000, workers=workers, coverage=False)
    layouts = r.exports('SCN')
    if not layouts:
        raise MachineryError('no layout export')
    layouts = layouts[0]
    # 2. random histories with the exact observables, drawn from three alphabets (variable fam, chosen with the initial
    #    state): all actions / what a solver does around a scaling / a complex step
    depth = 5
    num = 200 if quick else 3000
    cfg = ctx.write_cfg('VectorMC_sim.cfg', head % (depth, depth, 'TRUE', 'Init', 'Next') + 'INVARIANT Export\n' + laws)
    x = ctx.tlc_run('mech/VectorMC', cfg, simulate='num=%d' % num, depth=depth + 1, seed=ctx.seed + 1, workers=1,
                    timeout=900 if quick else 3000)
    if x.error or 'traces generated' not in x.out:
        raise MachineryError('simulation failed:\n' + x.tail())
    beh = x.exports('EXP')
    if len(beh) < num:
        raise MachineryError('simulation produced only %d behaviours:\n%s' % (len(beh), x.tail()))
    fams = {}
    for b in beh:
        fams[b['fam'][:2]] = fams.get(b['fam'][:2], 0) + 1
    if len(fams) < 3:
        raise MachineryError('vacuous: families of histories %r' % (fams,))
    # vacuity guard: every action of the specification occurs in the histories that are bound to the implementation
    SPEC_OF = {'set_val': 'SetValScalar', 'set_val_arr': 'SetValArr', 'set_val_idx': 'SetValIdx', 'set_vec': 'SetVec', 'iadd': 'IAdd',
               'isub': 'ISub', 'iadd_const': 'IAddConst', 'imul': 'IMul', 'op_idx': 'OpIdx', 'imul_vec': 'IMulVec', 'add_scal_vec': 'AddScalVec',
               'set_name': 'SetName', 'set_var': 'SetVarIdx', 'scale_to_norm': 'ScaleToNorm', 'scale_to_phys': 'ScaleToPhys',
               'cs_mode': 'CsSwitch'}
    for b in beh:
        for e in b['h']:
            k = SPEC_OF[e['a']['n']]
            ctx.coverage_actions[k] = ctx.coverage_actions.get(k, 0) + 1
    ctx.require_actions(ACTIONS)
    seen, uniq = set(), []
    for b in beh:
        k = json.dumps(b, sort_keys=True)
        if k not in seen:
            seen.add(k)
            uniq.append(b)
    beh = uniq
    jobs = [(layouts[b['ly'] - 1], b, bool(b['alloc'])) for b in beh]
    nproc = min(workers, 16)
    chunks = [c for c in split(list(range(len(jobs))), nproc * 4) if c]
    res = pmap(_worker, [[jobs[j] for j in c] for c in chunks], nproc)
    order = [j for c in chunks for j in c]
    nsteps = 0
    kinds = {}
    for j, f in zip(order, [y for ys in res for y in ys]):
        L, b, alloc = jobs[j]
        nsteps += len(b['h']) if f is None else f['step'] + 1
        kinds[b['kind']] = kinds.get(b['kind'], 0) + 1
        names = [e['a']['n'] for e in b['h']]
        if any(n.startswith('scale_to') for n in names) and any(n in ('set_name', 'set_var', 'set_val_idx') for n in names):
            ctx.note_nontrivial(json.dumps(slim(b), sort_keys=True) + L['name'])
        # complex step: a SET out of the mode on a storage whose imaginary plane is not zero, or complex arithmetic in the mode
        prev_im, prev_cs = b['xi0'], bool(b['cs0'])
        for e in b['h']:
            nz = any(q[0] != 0 for q in prev_im)
            if (nz and not prev_cs and e['a']['n'] in SETS) or (prev_cs and e['a']['n'] not in SETS + ('cs_mode',)):
                ctx.note_nontrivial(json.dumps(slim(b), sort_keys=True) + L['name'])
                kinds['cs:' + ('set out of the mode' if not prev_cs else 'arithmetic in the mode')] = \
                    kinds.get('cs:' + ('set out of the mode' if not prev_cs else 'arithmetic in the mode'), 0) + 1
            prev_im, prev_cs = e['datai'], bool(e['cs'])
        if f is not None:
            scn = dict(slim(b, f['step']), layout=L, alloc_complex=alloc, step=f['step'],
                       behaviour=dict(b, h=b['h'][:f['step'] + 1]))
            ctx.violation(scn, f['want'], f['got'], '%s [%s of layout %s, step %d]' % (f['clause'], VECS[b['kind']][0], L['name'], f['step']),
                          snippet='replay with: ./check C33 --replay <this file>', info={'failed': f})
    for k in ('cs:set out of the mode', 'cs:arithmetic in the mode'):
        if not kinds.get(k):
            raise MachineryError('vacuous: no history with %s (%r)' % (k[3:], kinds))
    ctx.impl = len(jobs)
    ctx.evaluations = nsteps
    ctx.exhaustive = False
    ctx.extra['actions_replayed'] = nsteps
    ctx.extra['behaviours_per_kind'] = kinds
    ctx.extra['behaviours_per_family'] = fams
    for b in beh[:2]:
        ctx.sample({'layout': layouts[b['ly'] - 1]['name'], 'kind': b['kind'],
                    'alloc_complex': bool(b['alloc']),
                    'history': [{'a': e['a'], 'cs': e['cs'], 'storage': wplanes(e['data'], e['datai'])} for e in b['h']]})
    ctx.rule = ('TLC -simulate histories of depth %d over 16 vector actions (set_val scalar/array/indexed, set_vec, +=, -=, *=, '
                'elementwise *=, += constant, iadd/isub/imul with idxs, add_scal_vec with the other vector or itself, named writes '
                'whole/indexed/flat and through the returned view, scale_to_norm/scale_to_phys fwd and rev, set_complex_step_mode) '
                'in three families (all actions; the alphabet of a solver around a scaling; the alphabet of a complex step: mode on/off, '
                'complex operands in the mode, real data set and combined out of it) on 2 layouts x 4 root vectors (_outputs, _residuals, '
                '_doutputs, _dresiduals) x {real storage, complex storage out of the mode, complex storage in the mode}; complex storage '
                'starts with a non-zero imaginary plane; after every action both planes of the storage, the dtype of asarray(), all named '
                'views (values, shapes, dtype), the component-level vectors (windows on the same data), dot(other), get_norm()**2 and '
                'dot(self) are compared; non-trivial = histories with a scaling action and an indexed or named write, or with a set '
                'operation out of the mode over a non-zero imaginary plane, or with arithmetic in the mode' % depth)
    ctx.assumptions = ['DefaultVector, serial',
                       'complex operands are used in complex-step mode only; both root vectors and the component-level vectors are '
                       'switched together (as System._set_complex_step_mode does)',
                       'dot() in complex-step mode is specified as the code computes it (np.dot of the complex arrays, no '
                       'conjugation); its docstring speaks of the real parts',
                       'reverse-mode scaling is specified for linear vectors only (OpenMDAO never scales a nonlinear vector in rev mode)',
                       'products are formed only from vectors with numerators <= 1000 and denominators <= 8 (TLC integers are 32 bit)',
                       'input vectors (unit conversion combined with scaling) are outside this check']
