"""C16 - interpolation derivatives are exact derivatives of the interpolant.

Spec: spec/mech/Interp.tla (the same module as C15), enumerated with InteriorOnly = TRUE: query points are cell
midpoints and quarter points on every axis, i.e. away from cell boundaries.  For each scenario TLC exports the exact
gradient of the table polynomial and, for multilinear tables, the slinear hat weights (with the laws DerivLaw:
gradient = exact 4-point difference quotient of the value, HatLaw: value = sum_k w_k T_k, sum_k w_k = 1).

Bound to the code:
  G1  d value / d x returned by InterpND.interpolate(compute_derivative=True) (single point, vectorised, gradient())
      and by MetaModelStructuredComp partials equals the spec's exact gradient, for every method that reproduces
      the table class; fixed-dimension variants return the same gradient as the general method on every table.
  W1  d value / d table of slinear / scipy_slinear (training_data_gradients / training_gradients) equals the spec's
      hat weights.
  W2  value = sum_k w_k T_k with the returned w and sum_k w_k = 1 for every method that offers the training gradient
      (for the reproduced classes the value is the spec's exact value).
  G2, W3 (relations on observed numbers, no spec expectation): for tables a method does not reproduce the returned
      d/dx equals the 4-point central difference of the returned values (exact for the piecewise polynomials of
      degree <= 4 these methods build); linear methods satisfy f(T1 + 2 T2) = f(T1) + 2 f(T2); akima (not linear, but
      homogeneous) satisfies f(3 T) = 3 f(T).
  S   the same for the spline entry points: InterpND(x_interp=...).evaluate_spline and SplineComp (values, Jacobian
      w.r.t. control points; bsplines: linearity and value = J . cp only).
  H   histories of queries on ONE InterpND (spec/mech/InterpHist.tla: every sequence of two queries - thorough: a
      sample of three - over {interpolate, interpolate with derivative, gradient} x {point A, nudged point An, second
      point B, batches [A,B], [B,A]}; law ReturnsRequested: every query returns the quantities of its own argument,
      the reference cache discipline is model checked and the two faulty ones - reuse on the same point without a
      computed gradient, reuse on a close point - are refuted by TLC) x a reduced scenario base of Interp.tla that
      exports the exact gradient at A and B: the gradient a query returns in a history equals the one a fresh object
      returns (and the exact one where the method reproduces the table).
  A   Akima's interpolant with smoothing (delta_x > 0; Interp.tla section Akima, INIT InitAk): the spec defines the
      interpolant with exact dual numbers (value and derivatives w.r.t. every table value by the sum / product /
      quotient rule) on 1-D grids of 4-7 points, tables 2x + e (e in {-1,0,1}^n, sampled) and delta_x in {1/2, 1, 2};
      evaluate_spline / SplineComp Jacobians, InterpND d/dx and training gradients are compared with these exact
      derivatives wherever the returned value is the definition's value."""
import collections
import json
import random
import time

from fractions import Fraction as F

from . import c15
from .c15 import METHODS, DEG, reproduced_degree, fr, point_of, table_of, make_interp, close_exact, nproc
from ..tlc import MachineryError
from ..util import pmap

TRAIN = ['slinear', 'lagrange2', 'lagrange3', 'akima', 'cubic', 'scipy_slinear', 'scipy_cubic', 'scipy_quintic']
SPLINE = ['slinear', 'lagrange2', 'lagrange3', 'akima', 'cubic', 'scipy_slinear', 'scipy_cubic', 'scipy_quintic']
H = 2.0 ** -8          # stencil step for G2 (interior points are >= 1/4 away from every node)
WTOL = 1e-10


def other_table(shape):
    """A fixed integer table that is not a low-degree polynomial (second operand of the linearity relation)."""
    import itertools
    import numpy as np
    t = np.zeros(shape)
    for idx in itertools.product(*[range(n) for n in shape]):
        i = list(idx) + [0, 0]
        t[idx] = ((7 * i[0] + 3 * i[1] * i[1] + 5 * i[2] + i[0] * i[1] + 2 * i[0] * i[0] * i[2]) % 11) - 5
    return t


def interp_grad(it, x):
    """-> ('v', value, [d/dx_i]) | ('exc', text)"""
    import numpy as np
    try:
        v, d = it.interpolate(np.array([x], dtype=float), compute_derivative=True)
        return ('v', float(np.asarray(v).ravel()[0]), [float(t) for t in np.asarray(d).ravel()])
    except Exception as e:      # noqa: BLE001
        return ('exc', '%s: %s' % (type(e).__name__, str(e)[:140]))


def value_at(it, x):
    import numpy as np
    return float(np.asarray(it.interpolate(np.array([x], dtype=float))).ravel()[0])


def train_grad(method, s, table, x):
    """value and d value / d table at x, obtained the way MetaModelStructuredComp obtains them.
    -> ('v', value, w ndarray of the table's shape) | ('exc', text)"""
    import numpy as np
    try:
        it = make_interp(method, s, table, False)
        it._compute_d_dvalues = True
        v = it._interpolate(np.array([x], dtype=float))
        if it._d_dvalues is not None:
            w = np.asarray(it._d_dvalues, dtype=float)[0].reshape(table.shape)
        else:
            w = np.asarray(it.training_gradients(np.array(x, dtype=float)), dtype=float).reshape(table.shape)
        return ('v', float(np.asarray(v).ravel()[0]), w)
    except Exception as e:      # noqa: BLE001
        return ('exc', '%s: %s' % (type(e).__name__, str(e)[:140]))


def make_mm(method, s, table, train):
    import numpy as np
    import openmdao.api as om
    p = om.Problem()
    c = om.MetaModelStructuredComp(method=method, extrapolate=False, vec_size=1, training_data_gradients=train)
    for i, g in enumerate(s['g']):
        c.add_input('x%d' % i, 0.0, training_data=np.array(g, dtype=float))
    c.add_output('f', 0.0, training_data=np.array(table, dtype=float))
    p.model.add_subsystem('mm', c, promotes=['*'])
    p.setup()
    p.final_setup()
    return p


def mm_derivs(p, s, x, train):
    import numpy as np
    try:
        for i, xi in enumerate(x):
            p.set_val('x%d' % i, xi)
        p.run_model()
        wrt = ['x%d' % i for i in range(s['dim'])] + (['f_train'] if train else [])
        J = p.compute_totals(of=['f'], wrt=wrt)
        d = [float(np.asarray(J['f', 'x%d' % i]).ravel()[0]) for i in range(s['dim'])]
        w = np.asarray(J['f', 'f_train'], dtype=float).reshape([len(g) for g in s['g']]) if train else None
        return ('v', float(p.get_val('f')[0]), d, w)
    except Exception as e:      # noqa: BLE001
        return ('exc', '%s: %s' % (type(e).__name__, str(e)[:140]))


def piecewise_poly_axes(method, dim):
    """axes along which the interpolant is a polynomial of degree <= 4 inside a cell for ANY table (so that the 4-point
    stencil is exact): all axes for the tensor-product linear methods; for akima only the first axis (the outermost
    1-D Akima interpolation; the inner ones feed it non-polynomially)."""
    base = method.split('-')[-1]
    return [0] if base == 'akima' else list(range(dim))


def check_group(item):
    import numpy as np
    from ..util import quiet
    quiet()
    s0, pts, do_mm, do_spline = item
    dim, cls = s0['dim'], s0['cls']
    table = table_of(s0)
    shape = table.shape
    scale = float(np.max(np.abs(table)))
    t2 = other_table(shape)
    scale2 = scale + 2 * float(np.max(np.abs(t2)))
    npts = [len(g) for g in s0['g']]
    fails = collections.defaultdict(list)
    cnt = collections.Counter()
    grads = {}

    def dtol(want):
        return c15.ATOL + c15.RTOL * max(abs(want), scale)

    for m in c15.methods_for(dim):
        if c15.applicable(m, s0) != 'ok':
            cnt['rejected_grid'] += 1
            continue
        repro = reproduced_degree(m, npts) >= DEG[cls]
        it = make_interp(m, s0, table, False)
        gm = grads[m] = {}
        # ---- G1 / G2: gradient with respect to the query point --------------------------------------------
        for j, (x, wv, wd, hat) in enumerate(pts):
            r = interp_grad(it, x)
            cnt['calls'] += 1
            if r[0] != 'v':
                fails[j].append((m, 'InterpND.interpolate(compute_derivative=True)', r, 'no error expected at an interior point'))
                continue
            gm[j] = (r[1], r[2])
            if repro:
                cnt['compared'] += 1
                bad = [i for i in range(dim) if not close_exact(r[2][i], wd[i], scale)]
                if bad or not close_exact(r[1], wv, scale):
                    fails[j].append((m, 'InterpND.interpolate(compute_derivative=True)', {'value': r[1], 'gradient': r[2]},
                                     'G1: gradient w.r.t. the query point = exact gradient of the reproduced polynomial'))
            elif j % 2 == 0:
                for i in piecewise_poly_axes(m, dim):
                    f = []
                    for t in (-2, -1, 1, 2):
                        y = list(x)
                        y[i] += t * H
                        f.append(value_at(it, y))
                    cnt['calls'] += 4
                    cnt['stencils'] += 1
                    fd = (f[0] - 8 * f[1] + 8 * f[2] - f[3]) / (12 * H)
                    if abs(fd - r[2][i]) > 1e-7 * max(1.0, scale):
                        fails[j].append((m, 'InterpND.interpolate(compute_derivative=True)',
                                         {'axis': i, 'returned': r[2][i], 'difference_quotient_of_returned_values': fd},
                                         'G2: returned d/dx differs from the 4-point difference quotient of the returned values'))
        # vectorised
        if len(pts) > 1:
            try:
                vb, db = make_interp(m, s0, table, False).interpolate(np.array([p_[0] for p_ in pts], dtype=float),
                                                                     compute_derivative=True)
                db = np.asarray(db, dtype=float).reshape(len(pts), dim)
                cnt['calls'] += 1
                for j, (x, wv, wd, hat) in enumerate(pts):
                    ref = wd if repro else (gm[j][1] if j in gm else None)
                    if ref is None:
                        continue
                    cnt['compared'] += 1
                    if any(abs(db[j, i] - ref[i]) > dtol(ref[i]) if not repro else
                           not close_exact(db[j, i], ref[i], scale) for i in range(dim)):
                        fails[j].append((m, 'InterpND.interpolate(vectorised, compute_derivative=True)',
                                         {'gradient': db[j].tolist(), 'reference': list(ref)},
                                         'G1: gradient w.r.t. the query point = exact gradient of the reproduced polynomial'
                                         if repro else 'vectorised and single-point gradient of the same table differ'))
            except Exception as e:      # noqa: BLE001
                fails[0].append((m, 'InterpND.interpolate(vectorised, compute_derivative=True)',
                                 ('exc', '%s: %s' % (type(e).__name__, str(e)[:140])), 'no error expected at interior points'))
        # gradient() entry point on a fresh object (re-interpolates by itself)
        if pts and 0 in gm:
            try:
                g0 = np.asarray(make_interp(m, s0, table, False).gradient(np.array([pts[0][0]], dtype=float)),
                                dtype=float).ravel()
                cnt['calls'] += 1
                cnt['compared'] += 1
                if any(abs(g0[i] - gm[0][1][i]) > dtol(gm[0][1][i]) for i in range(dim)):
                    fails[0].append((m, 'InterpND.gradient', {'gradient()': g0.tolist(), 'interpolate': gm[0][1]},
                                     'gradient() differs from the gradient returned by interpolate()'))
            except Exception as e:      # noqa: BLE001
                fails[0].append((m, 'InterpND.gradient', ('exc', '%s: %s' % (type(e).__name__, str(e)[:140])),
                                 'no error expected at an interior point'))
        # ---- W: derivative with respect to the table values -------------------------------------------------
        if m in TRAIN:
            for j, (x, wv, wd, hat) in enumerate(pts):
                r = train_grad(m, s0, table, x)
                cnt['calls'] += 1
                cnt['train_grads'] += 1
                if r[0] != 'v':
                    fails[j].append((m, 'InterpND training gradient', r,
                                     'W: d value / d table values must be available (the method supports training_data_gradients)'))
                    continue
                v, w = r[1], r[2]
                sw = float(np.sum(np.abs(w)))
                cnt['compared'] += 1
                if abs(float(np.sum(w * table)) - v) > WTOL * (1 + scale * sw) or abs(float(np.sum(w)) - 1.0) > WTOL * (1 + sw) \
                        or (repro and not close_exact(v, wv, scale)):
                    fails[j].append((m, 'InterpND training gradient',
                                     {'value': v, 'w.T': float(np.sum(w * table)), 'sum_w': float(np.sum(w))},
                                     'W2: value = sum_k w_k T_k with the returned weights, sum_k w_k = 1'))
                if hat is not None and m in ('slinear', 'scipy_slinear'):
                    cnt['compared'] += 1
                    if float(np.max(np.abs(w - hat))) > 1e-12:
                        fails[j].append((m, 'InterpND training gradient', {'max_abs_dev': float(np.max(np.abs(w - hat)))},
                                         'W1: slinear weights = hat-function weights of the spec'))
                if j < 2:
                    # W3: relation on observed numbers
                    cnt['compared'] += 1
                    if m == 'akima':
                        v3 = value_at(make_interp(m, s0, 3.0 * table, False), x)
                        if abs(v3 - 3.0 * v) > WTOL * (1 + 3 * scale):
                            fails[j].append((m, 'InterpND.interpolate', {'f(3T)': v3, '3f(T)': 3 * v},
                                             'W3: akima is homogeneous of degree 1 in the table values'))
                    else:
                        v2 = value_at(make_interp(m, s0, t2, False), x)
                        v12 = value_at(make_interp(m, s0, table + 2.0 * t2, False), x)
                        if abs(v12 - (v + 2.0 * v2)) > WTOL * (1 + scale2):
                            fails[j].append((m, 'InterpND.interpolate', {'f(T1+2T2)': v12, 'f(T1)+2f(T2)': v + 2 * v2},
                                             'W3: the interpolant is linear in the table values'))
        # ---- the component -----------------------------------------------------------------------------------
        if do_mm and (m in ('slinear', 'lagrange2', 'lagrange3', 'akima', 'cubic', 'scipy_cubic') or METHODS[m][1]):
            train = m in TRAIN
            try:
                p = make_mm(m, s0, table, train)
            except Exception as e:      # noqa: BLE001
                p = None
                fails[0].append((m, 'MetaModelStructuredComp.setup', ('exc', '%s: %s' % (type(e).__name__, str(e)[:140])),
                                 'component setup on a grid the method accepts'))
            for j, (x, wv, wd, hat) in enumerate(pts):
                if p is None:
                    break
                r = mm_derivs(p, s0, x, train)
                cnt['calls'] += 1
                cnt['mm_calls'] += 1
                if r[0] != 'v':
                    fails[j].append((m, 'MetaModelStructuredComp(training_data_gradients=%s)' % train, r,
                                     'no error expected at an interior point'))
                    continue
                v, d, w = r[1], r[2], r[3]
                cnt['compared'] += 1
                ref = wd if repro else (gm[j][1] if j in gm else None)
                if ref is not None and any(abs(d[i] - ref[i]) > dtol(ref[i]) for i in range(dim)):
                    fails[j].append((m, 'MetaModelStructuredComp partials', {'partials': d, 'reference': list(ref)},
                                     'G1: gradient w.r.t. the query point = exact gradient of the reproduced polynomial'
                                     if repro else 'component partials differ from InterpND gradient'))
                if w is not None:
                    sw = float(np.sum(np.abs(w)))
                    if abs(float(np.sum(w * table)) - v) > WTOL * (1 + scale * sw) or abs(float(np.sum(w)) - 1.0) > WTOL * (1 + sw):
                        fails[j].append((m, 'MetaModelStructuredComp(training_data_gradients=True)',
                                         {'value': v, 'w.T': float(np.sum(w * table)), 'sum_w': float(np.sum(w))},
                                         'W2: value = sum_k w_k T_k with the returned weights, sum_k w_k = 1'))
                    if hat is not None and m == 'slinear' and float(np.max(np.abs(w - hat))) > 1e-12:
                        fails[j].append((m, 'MetaModelStructuredComp(training_data_gradients=True)',
                                         {'max_abs_dev': float(np.max(np.abs(w - hat)))},
                                         'W1: slinear weights = hat-function weights of the spec'))
    # fixed-dimension variants return the same gradient as the general method
    for m, (k, fd, gen) in METHODS.items():
        if fd != dim or m not in grads or gen not in grads:
            continue
        for j, (v, d) in grads[m].items():
            if j in grads[gen]:
                cnt['compared'] += 1
                gd = grads[gen][j][1]
                if any(abs(d[i] - gd[i]) > dtol(gd[i]) for i in range(dim)):
                    fails[j].append((m, 'InterpND.interpolate(compute_derivative=True)', {m: d, gen: gd},
                                     'fixed-dimension variant gradient differs from the general method'))
    if do_spline and dim == 1:
        check_spline(s0, pts, table, t2, scale, scale2, fails, cnt)
    return dict(cnt), dict(fails)


def check_spline(s0, pts, table, t2, scale, scale2, fails, cnt):
    """S: InterpND(x_interp=...).evaluate_spline and SplineComp on the 1-D group (all its points at once)."""
    import numpy as np
    import openmdao.api as om
    from openmdao.components.interp_util.interp import InterpND
    order = sorted(range(len(pts)), key=lambda j: pts[j][0][0])
    xs = np.array([pts[j][0][0] for j in order], dtype=float)
    grid = np.array(s0['g'][0], dtype=float)
    n = len(grid)
    cls = s0['cls']
    for m in SPLINE + ['bsplines']:
        if (m != 'bsplines' and n < METHODS[m][0]) or (m == 'bsplines' and n < 4):
            continue        # fewer points than the method (bsplines: its default order 4) needs
        repro = m != 'bsplines' and reproduced_degree(m, [n]) >= DEG[cls]
        try:
            if m == 'bsplines':
                it = InterpND(method=m, num_cp=n, x_interp=xs)
            else:
                it = InterpND(method=m, points=grid, x_interp=xs)
            r, J = it.evaluate_spline(np.array(table, dtype=float), compute_derivative=True)
            r = np.asarray(r, dtype=float).ravel()
            J = np.asarray(J, dtype=float).reshape(len(xs), n)
            if m == 'akima':
                r2 = np.asarray(InterpND(method=m, points=grid, x_interp=xs).evaluate_spline(3.0 * table), dtype=float).ravel()
                lin_bad = np.abs(r2 - 3.0 * r) > WTOL * (1 + 3 * scale)
            else:
                mk = (lambda: InterpND(method=m, num_cp=n, x_interp=xs)) if m == 'bsplines' else \
                    (lambda: InterpND(method=m, points=grid, x_interp=xs))
                ra = np.asarray(mk().evaluate_spline(np.array(t2, dtype=float)), dtype=float).ravel()
                rb = np.asarray(mk().evaluate_spline(table + 2.0 * t2), dtype=float).ravel()
                lin_bad = np.abs(rb - (r + 2.0 * ra)) > WTOL * (1 + scale2)
            cnt['calls'] += 3
            cnt['spline_evals'] += 1
        except Exception as e:      # noqa: BLE001
            fails[order[0]].append((m, 'InterpND.evaluate_spline', ('exc', '%s: %s' % (type(e).__name__, str(e)[:140])),
                                    'no error expected for interior evaluation points'))
            continue
        comp = None
        try:
            p = om.Problem()
            kw = dict(num_cp=n) if m == 'bsplines' else dict(x_cp_val=grid)
            sc = om.SplineComp(method=m, x_interp_val=xs, vec_size=1, **kw)
            sc.add_spline(y_cp_name='ycp', y_interp_name='y', y_cp_val=np.array(table, dtype=float))
            p.model.add_subsystem('sc', sc, promotes=['*'])
            p.setup()
            p.run_model()
            Jc = np.asarray(p.compute_totals(of=['y'], wrt=['ycp'])['y', 'ycp'], dtype=float).reshape(len(xs), n)
            comp = (np.asarray(p.get_val('y'), dtype=float).ravel(), Jc)
            cnt['calls'] += 1
        except Exception as e:      # noqa: BLE001
            fails[order[0]].append((m, 'SplineComp', ('exc', '%s: %s' % (type(e).__name__, str(e)[:140])),
                                    'no error expected for interior evaluation points'))
        for k, j in enumerate(order):
            x, wv, wd, hat = pts[j]
            cnt['compared'] += 1
            sw = float(np.sum(np.abs(J[k])))
            if abs(float(J[k] @ table) - r[k]) > WTOL * (1 + scale * sw) or (repro and not close_exact(r[k], wv, scale)):
                fails[j].append((m, 'InterpND.evaluate_spline', {'value': float(r[k]), 'J.T': float(J[k] @ table)},
                                 'S: spline value = J . control values (and the exact polynomial for a reproduced class)'))
            if m != 'bsplines' and abs(float(np.sum(J[k])) - 1.0) > WTOL * (1 + sw):
                fails[j].append((m, 'InterpND.evaluate_spline', {'sum_J_row': float(np.sum(J[k]))},
                                 'S: the weights of one evaluation point sum to 1'))
            if hat is not None and m in ('slinear', 'scipy_slinear') and float(np.max(np.abs(J[k] - hat))) > 1e-12:
                fails[j].append((m, 'InterpND.evaluate_spline', {'max_abs_dev': float(np.max(np.abs(J[k] - hat)))},
                                 'W1: slinear weights = hat-function weights of the spec'))
            if lin_bad[k]:
                fails[j].append((m, 'InterpND.evaluate_spline', {'point': float(xs[k])},
                                 'W3: akima is homogeneous of degree 1 in the table values' if m == 'akima' else
                                 'W3: the interpolant is linear in the table values'))
            if comp is not None and (abs(comp[0][k] - r[k]) > 1e-12 * (1 + scale) or
                                     float(np.max(np.abs(comp[1][k] - J[k]))) > 1e-12 * (1 + sw)):
                fails[j].append((m, 'SplineComp', {'y': float(comp[0][k]), 'evaluate_spline': float(r[k]),
                                                   'max_abs_dev_J': float(np.max(np.abs(comp[1][k] - J[k])))},
                                 'S: SplineComp output / partials = InterpND.evaluate_spline value / Jacobian'))


# ---- Akima's interpolant with smoothing (delta_x > 0): exact value and derivatives from Interp.tla (Akima) ----------
class _Dual:
    """value and derivatives w.r.t. the table values as Fractions (independent reference for the spec's numbers)"""

    def __init__(self, v, d):
        self.v, self.d = F(v), [F(x) for x in d]

    def __add__(self, o):
        return _Dual(self.v + o.v, [x + y for x, y in zip(self.d, o.d)])

    def __sub__(self, o):
        return _Dual(self.v - o.v, [x - y for x, y in zip(self.d, o.d)])

    def __mul__(self, o):
        return _Dual(self.v * o.v, [self.v * y + o.v * x for x, y in zip(self.d, o.d)])

    def __truediv__(self, o):
        return _Dual(self.v / o.v, [(x * o.v - self.v * y) / (o.v * o.v) for x, y in zip(self.d, o.d)])

    def scale(self, c):
        return _Dual(self.v * c, [x * c for x in self.d])


def _abs_smooth(a, dl):
    if a.v >= dl:
        return a
    if a.v <= -dl:
        return a.scale(-1)
    return _Dual(a.v * a.v / (2 * dl) + dl / 2, [a.v * x / dl for x in a.d])


def akima_ref(g, T, dl, x):
    """-> (value, d/dx, [d/dT_k], number of nonzero weight arguments inside the rounded section)"""
    n = len(g)
    Td = [_Dual(T[j], [1 if k == j else 0 for k in range(n)]) for j in range(n)]
    M = {j: (Td[j + 1] - Td[j]).scale(F(1, g[j + 1] - g[j])) for j in range(n - 1)}
    M[-1] = M[0].scale(2) - M[1]
    M[-2] = M[-1].scale(2) - M[0]
    M[n - 1] = M[n - 2].scale(2) - M[n - 3]
    M[n] = M[n - 1].scale(2) - M[n - 2]
    i = max(j for j in range(n - 1) if g[j] <= x)
    m1, m2, m3, m4, m5 = (M[i + k] for k in (-2, -1, 0, 1, 2))
    args = (m4 - m3, m2 - m1, m5 - m4, m3 - m2)
    w2, w31, w32, w4 = (_abs_smooth(a, dl) for a in args)
    b = (m2 * w2 + m3 * w31) / (w2 + w31)
    bp1 = (m3 * w32 + m4 * w4) / (w32 + w4)
    h = F(g[i + 1] - g[i])
    c = (m3.scale(3) - b.scale(2) - bp1).scale(1 / h)
    d = (b + bp1 - m3.scale(2)).scale(1 / (h * h))
    t = F(x) - g[i]
    y = Td[i] + b.scale(t) + c.scale(t * t) + d.scale(t ** 3)
    return y.v, b.v + 2 * c.v * t + 3 * d.v * t * t, y.d, sum(1 for a in args if 0 < abs(a.v) < dl)


def ak_crosscheck(e):
    s, o = e['s'], e['o']
    v, dx, dT, rounded = akima_ref(s['g'], s['T'], F(s['dl'][0], s['dl'][1]), F(s['X'], 4))
    if fr(o['v']) != v or fr(o['dx']) != dx or [fr(t) for t in o['dT']] != dT or o['rounded'] != rounded:
        raise MachineryError('Akima: spec / reference disagree: %s' % json.dumps(e)[:400])


AK_TOL = 1e-9


def check_ak_group(item):
    """one (grid, table, delta_x) with all its evaluation points -> (counters, {point index: [failure]})"""
    import numpy as np
    import openmdao.api as om
    from openmdao.components.interp_util.interp import InterpND
    from ..util import quiet
    quiet()
    g, T, dl, pts, do_comp = item
    grid = np.array(g, dtype=float)
    tab = np.array(T, dtype=float)
    delta = dl[0] / dl[1]
    n = len(g)
    order = sorted(range(len(pts)), key=lambda j: pts[j][0])
    xs = np.array([pts[j][0] for j in order], dtype=float)
    scale = float(np.max(np.abs(tab)))
    fails = collections.defaultdict(list)
    cnt = collections.Counter()

    def near(a, b):
        return abs(a - b) <= AK_TOL * (1.0 + abs(b) + scale)

    def judge(j, m, via, v, dT, dx):
        """the derivative clauses are judged where the returned value is the value of the spec's definition"""
        x, wv, wdx, wdT, rounded = pts[j]
        cnt['compared'] += 1
        if v is not None and not near(v, wv):
            cnt['value_differs_from_definition'] += 1
            return
        if dT is not None and any(not near(float(a), b) for a, b in zip(dT, wdT)):
            fails[j].append((m, via, {'returned': [float(a) for a in dT], 'derivative_of_the_value': wdT},
                             'A: d value / d table values of the Akima interpolant with delta_x > 0 is the derivative of '
                             'the returned value'))
        if dx is not None and not near(float(dx), wdx):
            fails[j].append((m, via, {'returned': float(dx), 'derivative_of_the_value': wdx},
                             'A: d value / d x of the Akima interpolant with delta_x > 0 is the derivative of the '
                             'returned value'))

    # the interpolating spline (all points at once)
    try:
        it = InterpND(method='akima', points=grid, x_interp=xs, delta_x=delta)
        y, J = it.evaluate_spline(tab.copy(), compute_derivative=True)
        y = np.asarray(y, dtype=float).ravel()
        J = np.asarray(J, dtype=float).reshape(len(xs), n)
        cnt['calls'] += 1
        cnt['spline_evals'] += 1
        for k, j in enumerate(order):
            judge(j, 'akima', 'InterpND.evaluate_spline(delta_x=%s)' % delta, float(y[k]), J[k], None)
    except Exception as e:      # noqa: BLE001
        y = None
        fails[order[0]].append(('akima', 'InterpND.evaluate_spline(delta_x=%s)' % delta,
                                ('exc', '%s: %s' % (type(e).__name__, str(e)[:140])), 'no error expected for interior points'))
    if do_comp:
        try:
            p = om.Problem()
            sc = om.SplineComp(method='akima', x_cp_val=grid, x_interp_val=xs, vec_size=1, interp_options={'delta_x': delta})
            sc.add_spline(y_cp_name='ycp', y_interp_name='y', y_cp_val=tab.copy())
            p.model.add_subsystem('sc', sc, promotes=['*'])
            p.setup()
            p.run_model()
            Jc = np.asarray(p.compute_totals(of=['y'], wrt=['ycp'])['y', 'ycp'], dtype=float).reshape(len(xs), n)
            yc = np.asarray(p.get_val('y'), dtype=float).ravel()
            cnt['calls'] += 1
            for k, j in enumerate(order):
                judge(j, 'akima', 'SplineComp(interp_options={delta_x: %s})' % delta, float(yc[k]), Jc[k], None)
        except Exception as e:      # noqa: BLE001
            fails[order[0]].append(('akima', 'SplineComp', ('exc', '%s: %s' % (type(e).__name__, str(e)[:140])),
                                    'no error expected for interior points'))
    # the table interpolant: value, d/dx, d/d table the way the component gets it.  ('1D-akima' is not part of this
    # family: Interp1DAkima does not hand **kwargs to its base class, so its delta_x is always 0 - another interpolant.)
    for m in ('akima',):
        try:
            it = InterpND(method=m, points=grid, values=tab.copy(), delta_x=delta)
        except Exception as e:      # noqa: BLE001
            fails[order[0]].append((m, 'InterpND(delta_x=%s)' % delta, ('exc', '%s: %s' % (type(e).__name__, str(e)[:140])),
                                    'no error expected'))
            continue
        for j in order:
            x = pts[j][0]
            try:
                v, d = it.interpolate(np.array([[x]], dtype=float), compute_derivative=True)
                cnt['calls'] += 1
                judge(j, m, 'InterpND.interpolate(compute_derivative=True, delta_x=%s)' % delta,
                      float(np.asarray(v).ravel()[0]), None, float(np.asarray(d).ravel()[0]))
                if m == 'akima':
                    it2 = InterpND(method=m, points=grid, values=tab.copy(), delta_x=delta)
                    it2._compute_d_dvalues = True
                    v2 = it2._interpolate(np.array([[x]], dtype=float))
                    cnt['calls'] += 1
                    cnt['train_grads'] += 1
                    judge(j, m, 'InterpND training gradient (delta_x=%s)' % delta, float(np.asarray(v2).ravel()[0]),
                          np.asarray(it2._d_dvalues, dtype=float)[0].ravel(), None)
            except Exception as e:      # noqa: BLE001
                fails[j].append((m, 'InterpND.interpolate(delta_x=%s)' % delta,
                                 ('exc', '%s: %s' % (type(e).__name__, str(e)[:140])), 'no error expected at an interior point'))
    return dict(cnt), dict(fails)


def _ak_worker(chunk):
    return [check_ak_group(it) for it in chunk]


def run_akima(ctx, quick):
    """the family of Interp.tla (InitAk / ChooseAk): exact Akima value and derivatives for delta_x > 0"""
    mod = 128 if quick else 4
    cfg = c15.write_cfg(ctx, 'InterpAkima.cfg', dims=[1], npoly=1, all1d=False, nrep=1, nrep3=1, full2d=False,
                        interior=True, exset=[False], akima=(mod, ctx.seed % mod))
    # without -coverage: TLC's coverage mode re-evaluates the LET definitions of the dual-number arithmetic at every
    # use (no end); the vacuity guard is the number of exported ChooseAk states instead
    r = ctx.tlc_check('mech/Interp', cfg, workers=min(8, nproc()), timeout=2400, heap='8g', coverage=False)
    exps = r.exports('AK')
    n_init = 11         # 5 grids x delta_x in {1/2, 1} + the evenly spaced grid with delta_x = 2
    if len(exps) < 300 or len(exps) != r.distinct - n_init:
        raise MachineryError('Akima family: %d scenarios exported, %d states' % (len(exps), r.distinct))
    groups = collections.OrderedDict()
    for e in sorted(exps, key=lambda e: json.dumps(e['s'], sort_keys=True)):
        ak_crosscheck(e)
        s, o = e['s'], e['o']
        groups.setdefault(json.dumps([s['g'], s['T'], s['dl']]), []).append(e)
    rnd = random.Random(ctx.seed)
    items = []
    for es in groups.values():
        s = es[0]['s']
        pts = [(e['s']['X'] / 4.0, float(fr(e['o']['v'])), float(fr(e['o']['dx'])), [float(fr(t)) for t in e['o']['dT']],
                e['o']['rounded']) for e in es]
        items.append((s['g'], s['T'], s['dl'], pts, rnd.randrange(4) == 0))
    n = nproc()
    idx_chunks = [c for c in ([i for i in range(k, len(items), n * 4)] for k in range(n * 4)) if c]
    res = pmap(_ak_worker, [[items[i] for i in c] for c in idx_chunks], nproc=n)
    tot = collections.Counter()
    glist = list(groups.values())
    for ids, rs in zip(idx_chunks, res):
        for gi, (cnt, fails) in zip(ids, rs):
            tot.update(cnt)
            es = glist[gi]
            for e in es:
                if e['o']['rounded'] > 0:
                    ctx.note_nontrivial(json.dumps(['akima', e['s']['g'], e['s']['T'], e['s']['dl'], e['s']['X']]))
            for j, fl in sorted(fails.items()):
                e = es[int(j)]
                byc = collections.OrderedDict()
                for f in fl:
                    byc.setdefault(f[3], []).append(f)
                for clause, fs in byc.items():
                    scen = dict(e['s'])
                    scen['x'] = e['s']['X'] / 4.0
                    scen['failing'] = [[f[0], f[1], f[2], f[3]] for f in fs]
                    ctx.violation(scen, e['o'], [[f[0], f[1], f[2]] for f in fs],
                                  '%s [%s]' % (clause, ', '.join(sorted(set(f[0] for f in fs)))),
                                  snippet='replay with: ./check C16 --replay <this file>')
    if tot['value_differs_from_definition'] > 0.5 * max(1, tot['compared']):
        raise MachineryError('Akima: the values the code returns are not those of the spec\'s definition in %d of %d '
                             'comparisons: the derivative oracle does not apply' %
                             (tot['value_differs_from_definition'], tot['compared']))
    pick = [e for e in exps if e['o']['rounded'] > 0][:1] or exps[:1]
    return len(exps), sum(1 for e in exps if e['o']['rounded'] > 0), tot, pick[0]


def replay_akima(ctx, rec):
    s, o = rec['scenario'], rec['expected']
    base = {k: v for k, v in s.items() if k not in ('x', 'failing')}
    cfg = c15.write_cfg(ctx, 'InterpAkimaReplay.cfg', dims=[1], npoly=1, all1d=False, nrep=1, nrep3=1, full2d=False,
                        interior=True, exset=[False], akima=(997, 0))
    ctx.tlc_check('mech/Interp', cfg, workers=2, timeout=1200, heap='4g', coverage=False)   # the laws on a small sample
    ak_crosscheck({'s': base, 'o': o})
    pts = [(base['X'] / 4.0, float(fr(o['v'])), float(fr(o['dx'])), [float(fr(t)) for t in o['dT']], o['rounded'])]
    cnt, fails = check_ak_group((base['g'], base['T'], base['dl'], pts, True))
    ctx.impl = 1
    ctx.evaluations = cnt.get('calls', 0)
    ctx.rule = 'replay of one stored Akima scenario'
    ctx.sample({'replayed': ctx.replay, 'failures': [[f[0], f[1], f[2], f[3]] for fl in fails.values() for f in fl]})
    for fl in fails.values():
        scen = dict(base)
        scen['failing'] = [[f[0], f[1], f[2], f[3]] for f in fl]
        ctx.violation(scen, o, [[f[0], f[1], f[2]] for f in fl], rec['clause'])


def hat_table(s, o):
    """outer product of the spec's per-axis hat weights (None unless the spec exported them)."""
    import numpy as np
    if not o['w']:
        return None
    w = np.array([1.0])
    for ax in o['w']:
        w = np.multiply.outer(w, np.array([float(fr(t)) for t in ax]))
    return w.reshape([len(g) for g in s['g']])


def build_items(groups, ctx, mm_every, spline_every):
    rnd = random.Random(ctx.seed)
    items = []
    for s0, es in groups:
        pts = []
        for e in es:
            s, o = e['s'], e['o']
            pts.append(([float(v) for v in point_of(s)], float(fr(o['v'])), [float(fr(d)) for d in o['d']], hat_table(s, o)))
        items.append((s0, pts, rnd.randrange(mm_every) == 0, rnd.randrange(spline_every) == 0))
    return items


def _worker(chunk):
    return [check_group(it) for it in chunk]


# genuine defect found by this check: InterpAkima cannot deliver d value / d table for 2-D tables (shape test on the
# wrong array in the leaf table, element instead of vector assignment in the top table) and for any table with a
# 4-point axis below the first one (dm5_dv left unbound by the idx == 1 == ngrid - 3 branch chain).
def pred_akima_training_gradient(scenario, info):
    s = scenario
    fl = s.get('failing', [])
    if s.get('dim', 1) < 2 or not fl:
        return False
    return all(f[0] == 'akima' and ('training' in f[1]) and f[2][0] == 'exc' and
               ('could not be broadcast' in f[2][1] or "dm5_dv" in f[2][1]) for f in fl)


# the 4-point-grid defect of C15 (branch chain idx == 1 == ngrid - 3 in Interp1DAkima.compute_coeffs): no value, hence
# no gradient, in the middle cell of a 4-point 1-D grid
def pred_akima_four_points(scenario, info):
    s = scenario
    fl = s.get('failing', [])
    if s.get('dim') != 1 or len(s['g'][0]) != 4 or not fl:
        return False
    g, X, R = s['g'][0], s['X'][0], s['R']
    return R * g[1] <= X <= R * g[2] and all(f[0] == '1D-akima' and "UnboundLocalError" in json.dumps(f[2]) for f in fl)


# InterpND.gradient(x) re-interpolates with compute_derivative=False; InterpAkima then skips the sub-table part of
# d/dx and the components 2.. of the returned gradient are uninitialised memory
def pred_gradient_method(scenario, info):
    fl = scenario.get('failing', [])
    return bool(fl) and scenario.get('dim', 1) >= 2 and all(f[0] == 'akima' and f[1] == 'InterpND.gradient' for f in fl)


# InterpND.gradient(x) compares only the point with the cached one: after interpolate(x) WITHOUT derivatives the stale
# (N-d akima: uninitialised) d_dx is returned
def pred_gradient_after_value_only(scenario, info):
    s = scenario
    fl = s.get('failing', [])
    if 'hist' not in s or not fl:
        return False
    k = s.get('failing_call', 0)
    h = s['hist']
    return k >= 1 and h[k][0] == 'grad' and h[k - 1][0] == 'val' and h[k - 1][1] == h[k][1] and \
        all(f[0] == 'akima' for f in fl)


def replay(ctx):
    with open(ctx.replay) as f:
        rec = json.load(f)
    s, o = rec['scenario'], rec['expected']
    if s.get('fam') == 'akima':
        return replay_akima(ctx, rec)
    # the laws are re-checked by TLC on a small bound; the stored expectation must equal the Fraction reference
    cfg = c15.write_cfg(ctx, 'InterpReplay.cfg', dims=[1], npoly=1, all1d=False, nrep=2, nrep3=1, full2d=False,
                    interior=False, exset=[True, False])
    c15.run_tlc(ctx, cfg, timeout=600)
    if 'hist' in s:
        return c15.replay_history(ctx, 'C16', rec, 'grad')
    c15.crosscheck({'s': s, 'o': o})
    item = build_items([(s, [{'s': s, 'o': o}])], ctx, 1, 1)[0]
    cnt, fails = check_group(item)
    ctx.impl = 1
    ctx.evaluations = cnt.get('calls', 0)
    ctx.rule = 'replay of one stored scenario'
    ctx.sample({'replayed': ctx.replay, 'failures': [[f[0], f[1], f[2], f[3]] for fl in fails.values() for f in fl]})
    for fl in fails.values():
        scen = dict(s)
        scen['failing'] = [[f[0], f[1], f[2], f[3]] for f in fl]
        ctx.violation(scen, o, [[f[0], f[1], f[2]] for f in fl], rec['clause'])


def run(ctx):
    preds = {'C16-akima-training-gradient': pred_akima_training_gradient,
             'C16-akima-four-point-grid': pred_akima_four_points,
             'C16-gradient-method-akima-nd': pred_gradient_method,
             'C16-gradient-after-value-only-interpolate': pred_gradient_after_value_only,
             'C16-fixed-method-mixed-batch': c15.pred_fixed_mixed_batch}
    ctx.register_predicates(preds)
    c15.install_tally(ctx, preds)
    if getattr(ctx, 'replay', None):
        return replay(ctx)
    quick = ctx.tier == 'quick'
    if quick:
        cfg = c15.write_cfg(ctx, 'Interp16.cfg', dims=[1, 2], npoly=1, all1d=True, nrep=5, nrep3=1, full2d=False,
                            interior=True, exset=[False])
    else:
        cfg = c15.write_cfg(ctx, 'Interp16.cfg', dims=[1, 2, 3], npoly=2, all1d=True, nrep=8, nrep3=3, full2d=True,
                            interior=True, exset=[False])
    marks = [('start', time.time())]
    r, exports = c15.run_tlc(ctx, cfg)
    marks.append(('tlc', time.time()))
    groups = c15.group(exports)
    items = build_items(groups, ctx, mm_every=5, spline_every=3)
    n = nproc()
    order = sorted(range(len(items)), key=lambda i: -len(items[i][1]) * (3 ** items[i][0]['dim']))
    idx_chunks = [c for c in ([i for i in order[k::n * 6]] for k in range(n * 6)) if c]
    res = pmap(_worker, [[items[i] for i in c] for c in idx_chunks], nproc=n)
    tot = collections.Counter()
    nscen = 0
    for ids, rs in zip(idx_chunks, res):
        for gi, (cnt, fails) in zip(ids, rs):
            tot.update(cnt)
            s0, es = groups[gi]
            nscen += len(es)
            for e in es:
                s = e['s']
                ctx.note_nontrivial(json.dumps([s['g'], s['cls'], s['p'], s['pos']]))
            for j, fl in sorted(fails.items()):
                e = es[int(j)]
                byc = collections.OrderedDict()
                for f in fl:
                    byc.setdefault(f[3], []).append(f)
                for clause, fs in byc.items():
                    scen = dict(e['s'])
                    scen['x'] = [float(v) for v in point_of(e['s'])]
                    scen['failing'] = [[f[0], f[1], f[2], f[3]] for f in fs]
                    ctx.violation(scen, e['o'], [[f[0], f[1], f[2]] for f in fs],
                                  '%s [%s]' % (clause, ', '.join(sorted(set(f[0] for f in fs)))),
                                  snippet='replay with: ./check C16 --replay <this file>')
    marks.append(('replay', time.time()))
    # ---- histories of queries on one object (InterpHist.tla x a reduced scenario base with a second point B) -------
    hcfg = c15.write_cfg(ctx, 'InterpHistBase.cfg', dims=[1, 2, 3], npoly=1, all1d=False, nrep=3 if quick else 5,
                         nrep3=1, full2d=False, interior=True, exset=[False], histpos=True, bkind='mid')
    _, hexports = c15.run_tlc(ctx, hcfg)
    # (the refutation of the two faulty cache disciplines is part of the thorough tier and of every replay)
    hists = c15.run_hist_tlc(ctx, ['val', 'valD', 'grad'], True, 2, refute=not quick)
    if not quick:
        h3 = c15.run_hist_tlc(ctx, ['val', 'valD', 'grad'], True, 3, refute=False)
        random.Random(ctx.seed).shuffle(h3)
        hists = hists + h3[:300]
    # a history that ends with a value-only query has no gradient to judge at its end
    hists = [h for h in hists if h[-1][0] != 'val']
    marks.append(('hist_tlc', time.time()))
    htot = c15.run_histories(ctx, 'C16', hexports, hists, 'grad', lambda s_: c15.methods_for(s_['dim']))
    marks.append(('hist_replay', time.time()))
    # ---- Akima with smoothing: exact derivatives from the spec's definition ------------------------------------------
    n_ak, n_ak_rounded, atot, ak_sample = run_akima(ctx, quick)
    marks.append(('akima', time.time()))
    tot.update(atot)
    ctx.extra['akima_scenarios'] = n_ak
    ctx.extra['akima_scenarios_in_rounded_section'] = n_ak_rounded
    for e in hexports:
        ctx.note_nontrivial(json.dumps(['hist', e['s']['g'], e['s']['cls'], e['s']['pos']]))
    tot.update(htot)
    ctx.extra['history_scenarios'] = len(hexports)
    ctx.extra['histories_per_scenario'] = len(hists)
    ctx.extra['phase_wall_s'] = {b[0]: round(b[1] - a[1], 1) for a, b in zip(marks, marks[1:])}
    ctx.impl = nscen + len(hexports) * len(hists) + n_ak
    ctx.evaluations = tot['calls']
    ctx.exhaustive = True
    ctx.extra['counters'] = dict(tot)
    ctx.extra['groups'] = len(groups)
    pick = [e for e in exports if e['s']['dim'] == 1 and e['s']['cls'] == 'lin'][:1] + \
        [e for e in exports if e['s']['dim'] == 2 and e['s']['cls'] == 'cub'][:1] + \
        [e for e in exports if e['s']['dim'] == 2 and e['s']['cls'] == 'lin'][:1]
    for e in pick:
        ctx.sample({'scenario': e['s'], 'spec_outcome': e['o']})
    ctx.sample({'scenario': ak_sample['s'], 'spec_outcome': ak_sample['o']}, limit=4)
    ctx.rule = ('(1) every scenario of Interp.tla with InteriorOnly: %s; x {multilinear, tensor-quadratic, tensor-cubic} integer '
                'table x query point with every coordinate a cell midpoint or quarter point; each executed on InterpND '
                '(gradient w.r.t. x: every reproducing method, single / vectorised / gradient(), fixed vs general; gradient '
                'w.r.t. table values: every method that offers it), 1/5 of the groups through MetaModelStructuredComp '
                '(partials, training_data_gradients) and 1/3 of the 1-D groups through evaluate_spline and SplineComp; every '
                'scenario is non-trivial (in-cell point, no node).  (2) query histories: every history of InterpHist.tla '
                '(%d per scenario) x %d base scenarios (dimension 1-3, point in the first or in the last cell of every axis, second point B = a cell '
                'midpoint elsewhere) on every applicable method.  (3) Akima with delta_x > 0: %d scenarios of the Akima '
                'family (AkMod = %d, residue = seed), %d of them with a weight argument strictly inside the rounded section' %
                ('1-D: all 336 grids; 2-D: all pairs of %d representative grids' % (5 if quick else 8) +
                 ('' if quick else ' with quarter points of every cell; 3-D: 3 grids, midpoints'),
                 len(hists), len(hexports), n_ak, 128 if quick else 4, n_ak_rounded))
    ctx.assumptions = [
        'C16 is partial (DESIGN.md section 7): the exact-derivative oracle exists only where the table is a polynomial of '
        'the class the method reproduces; for other tables (akima / cubic / bsplines / any method on a higher-degree '
        'table) the clauses G2 and W3 are relations between numbers observed from the implementation (4-point difference '
        'quotient of returned values with h = 2^-8 at 1e-7*scale; f(T1+2*T2) = f(T1)+2*f(T2) and value = w.T at 1e-10), '
        'not comparisons with a spec value',
        'akima is not linear in the table values (only homogeneous and translation-equivariant): additivity is not '
        'demanded of it; f(3T) = 3 f(T), value = w.T and sum(w) = 1 are',
        'query points are interior dyadic points (>= 1/4 cell away from every node), where the gradient is unique',
        'd value / d table through InterpND is obtained the way MetaModelStructuredComp obtains it (_compute_d_dvalues / '
        '_d_dvalues, else training_gradients); fixed-dimension variants do not offer it (documented RuntimeError)',
        'bsplines: only linearity in the control points and value = J.cp are checked',
        'histories: the point "An" is A + 2^-20 on the first axis (same cell; within numpy.allclose of A); results in a '
        'history are compared with those of a fresh object at 1e-12*(1+max|table|) (the same arithmetic), a query a '
        'fresh object refuses is not judged',
        'Akima family: the derivative clauses are judged only where the returned value equals the value of the spec\'s '
        'definition (1e-9); 1D-akima is excluded (it ignores delta_x: Interp1DAkima drops **kwargs); MetaModelStructured'
        'Comp has no delta_x option',
        'float comparison with the spec: |obs - exact| <= 1e-9 + 1e-9*|exact| + 1e-11*max|table|; hat weights at 1e-12',
    ]
