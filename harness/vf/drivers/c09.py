"""C09 - iterative solvers honour their termination contract.

Spec: spec/mech/Solver.tla.  TLC checks IterBound, StopsAtFirst, FailIffNotMet, RaiseIffFail, SuccessSound,
StopJustified exhaustively over all norm histories / option grids / six solver classes, then exports every
maximal behaviour (configuration + norm script + expected iteration counts, outcome, raise).  Every behaviour is
replayed into the real solver class on a small coupled model: only the *return value* of _iter_get_norm is replaced
by the script (the original is still called for its side effects); observed: number of _single_iteration calls,
_iter_count, norms requested, failure class passed to report_failure, AnalysisError raised."""
import multiprocessing as mp
import os

from ..tlc import MachineryError

KINDS = ["newton", "broyden", "nlbgs", "nlbj", "lnbgs", "lnbj"]


def fl(x):
    n, d = x
    if d == 0:
        return float('nan') if n == 0 else float('inf')
    return n / d


_P = {}


def _build(kind):
    import openmdao.api as om

    class C1(om.ExplicitComponent):
        def setup(self):
            self.add_input('a', 0.)
            self.add_input('x', 1.)
            self.add_output('y', 0.)
            self.declare_partials('*', '*')

        def compute(self, i, o):
            o['y'] = 0.5 * i['a'] + 1 + i['x']

        def compute_partials(self, i, J):
            J['y', 'a'] = 0.5
            J['y', 'x'] = 1.

    p = om.Problem()
    m = p.model
    m.add_subsystem('ivc', om.IndepVarComp('x', 1.0))
    g = m.add_subsystem('g', om.Group())
    g.add_subsystem('c1', C1())
    g.add_subsystem('c2', C1())
    g.connect('c1.y', 'c2.a')
    g.connect('c2.y', 'c1.a')
    m.connect('ivc.x', 'g.c1.x')
    m.connect('ivc.x', 'g.c2.x')
    g.linear_solver = om.DirectSolver()
    if kind == 'newton':
        g.nonlinear_solver = om.NewtonSolver(solve_subsystems=False, iprint=-1)
    elif kind == 'broyden':
        g.nonlinear_solver = om.BroydenSolver(iprint=-1)
    elif kind == 'nlbgs':
        g.nonlinear_solver = om.NonlinearBlockGS(iprint=-1)
    elif kind == 'nlbj':
        g.nonlinear_solver = om.NonlinearBlockJac(iprint=-1)
    elif kind == 'lnbgs':
        g.nonlinear_solver = om.NonlinearBlockGS(maxiter=50, iprint=-1)
        g.linear_solver = om.LinearBlockGS()
    elif kind == 'lnbj':
        g.nonlinear_solver = om.NonlinearBlockGS(maxiter=50, iprint=-1)
        g.linear_solver = om.LinearBlockJac()
    p.setup(force_alloc_complex=True)
    p.final_setup()
    p.run_model()
    return p


def real_run(kind, cfg, script):
    import warnings
    from openmdao.core.analysis_error import AnalysisError
    p = _P.get(kind)
    if p is None:
        p = _P[kind] = _build(kind)
    g = p.model.g
    ln = kind.startswith('ln')
    s = g.linear_solver if ln else g.nonlinear_solver
    s.options['maxiter'] = cfg['maxiter']
    s.options['atol'] = fl(cfg['atol'])
    s.options['rtol'] = fl(cfg['rtol'])
    s.options['err_on_non_converge'] = cfg['err']
    s.options['iprint'] = -1
    if not ln:
        s.options['stall_limit'] = cfg['stall_limit']
        s.options['stall_tol'] = fl(cfg['stall_tol'])
        s.options['stall_tol_type'] = cfg['stall_type']
    obs = {'norms': 0, 'its': 0, 'fail': None, 'raised': False, 'over': False}
    cls = type(s)
    og, osi, orf = cls._iter_get_norm, cls._single_iteration, cls.report_failure
    it = iter(script)

    def gn(self):
        og(self)                       # keep the side effects (Broyden's fxm, block-linear rhs handling)
        obs['norms'] += 1
        try:
            return next(it)
        except StopIteration:
            obs['over'] = True
            return float('nan')

    def si(self):
        obs['its'] += 1
        return osi(self)

    def rf(self, msg):
        obs['fail'] = ('stall_fail' if 'stalled' in msg else 'naninf_fail' if 'NaN' in msg else
                       'maxiter_fail' if 'failed to converge' in msg else 'other:' + msg)
        return orf(self, msg)

    s._iter_get_norm = gn.__get__(s)
    s._single_iteration = si.__get__(s)
    s.report_failure = rf.__get__(s)
    p.set_val('ivc.x', 1.0)
    g._outputs.set_val(1.0)
    try:
        with warnings.catch_warnings():
            warnings.simplefilter('ignore')
            if cfg.get('cs'):
                p.set_complex_step_mode(True)
            try:
                if ln:
                    p.model.run_linearize()
                    p.model._dresiduals.set_val(1.0)
                    g._doutputs.set_val(0.0)
                    g._solve_linear('fwd')
                else:
                    g._solve_nonlinear()
            except AnalysisError:
                obs['raised'] = True
    finally:
        if cfg.get('cs'):
            p.set_complex_step_mode(False)
        del s._iter_get_norm, s._single_iteration, s.report_failure
    obs['iter'] = s._iter_count
    return obs


def _worker(chunk):
    import numpy as np
    np.seterr(all='ignore')
    out = []
    for b in chunk:
        cfg = b['cfg']
        script = [fl(x) for x in b['script']]
        try:
            o = real_run(cfg['kind'], cfg, script)
        except Exception as e:      # an unexpected exception type is itself an observation
            o = {'norms': -1, 'its': -1, 'fail': 'exception:%s:%s' % (type(e).__name__, e), 'raised': True,
                 'over': False, 'iter': -1}
            _P.pop(cfg['kind'], None)
        out.append(o)
    return out


def expected(b):
    return {'norms': len(b['script']), 'its': b['its'], 'iter': b['iter'],
            'fail': None if b['outcome'] == 'converged' else b['outcome'], 'raised': b['raised'], 'over': False}


def pred_stall_before_tol(scn, info):
    b = scn
    return b.get('stalled') and b.get('outcome') == 'converged' and info['observed'].get('fail') == 'stall_fail'


def run(ctx):
    quick = ctx.tier == 'quick'
    consts = '''CONSTANTS
  Configs <- MCConfigs
  NormVals <- MCNormVals
  FirstVals <- MCFirstVals
  MaxIters = {%s}
  CsVals = {TRUE, FALSE}
  Kinds = {"newton", "broyden", "nlbgs", "nlbj", "lnbgs", "lnbj"}
  StallLimits = {0, 1, 2}
INIT Init
NEXT Next
''' % ('0, 1, 2' if quick else '0, 1, 2, 3')
    cfg = ctx.write_cfg('SolverMC.cfg', consts + '''VIEW View
INVARIANT IterBound
INVARIANT FailIffNotMet
INVARIANT RaiseIffFail
INVARIANT SuccessSound
INVARIANT StopJustified
PROPERTY StopsAtFirst
''')
    ctx.tlc_check('mech/SolverMC', cfg, timeout=3000)
    ctx.require_actions(['IterInit', 'Iterate', 'Classify'])
    cfgx = ctx.write_cfg('SolverMC_export.cfg', consts + 'INVARIANT Export\n')
    x = ctx.tlc_run('mech/SolverMC', cfgx, timeout=3000, heap='12g')
    if x.error or not x.finished:
        raise MachineryError('export failed:\n' + x.tail())
    beh = x.exports('EXP')
    if not beh:
        raise MachineryError('no behaviours exported')
    if quick:
        # stall bookkeeping needs longer histories (two separate plateaus): a second, narrower run with maxiter = 3
        consts2 = '''CONSTANTS
  Configs <- MCConfigs
  NormVals <- MCNormVals
  FirstVals <- MCFirstVals
  MaxIters = {3}
  CsVals = {FALSE}
  Kinds = {"newton", "nlbj"}
  StallLimits = {2}
INIT Init
NEXT Next
'''
        cfg2 = ctx.write_cfg('SolverMC_stall.cfg', consts2 + 'VIEW View\nINVARIANT IterBound\nINVARIANT FailIffNotMet\n'
                             'INVARIANT SuccessSound\nPROPERTY StopsAtFirst\n')
        ctx.tlc_check('mech/SolverMC', cfg2, timeout=3000, coverage=False)
        x2 = ctx.tlc_run('mech/SolverMC', ctx.write_cfg('SolverMC_stall_export.cfg', consts2 + 'INVARIANT Export\n'),
                         timeout=3000, heap='12g')
        if x2.error or not x2.finished:
            raise MachineryError('stall export failed:\n' + x2.tail())
        beh += x2.exports('EXP')
    ctx.register_predicates({'C09-stall-before-tolerance': pred_stall_before_tol})
    # group by kind so that each worker re-uses one set-up problem per kind
    beh.sort(key=lambda b: (b['cfg']['kind'], b['cfg']['cs']))
    n = len(beh)
    nproc = min(16, os.cpu_count() or 1)
    size = max(50, n // (nproc * 8) + 1)
    chunks = [beh[i:i + size] for i in range(0, n, size)]
    with mp.get_context('fork').Pool(nproc) as pool:
        res = pool.map(_worker, chunks)
    k = 0
    for ch, rs in zip(chunks, res):
        for b, o in zip(ch, rs):
            k += 1
            e = expected(b)
            sc = b['script']
            if any(v[1] == 0 for v in sc) or b['stalled'] or b['cfg']['cs']:
                ctx.note_nontrivial((b['cfg']['kind'], str(b['cfg']), str(sc)))
            if o != e:
                clause = [kk for kk in e if e[kk] != o.get(kk)]
                ctx.violation(b, e, o, 'observed %s differ from the spec behaviour' % clause,
                              snippet='./check C09 --replay <this file>', info={'observed': o})
    ctx.impl = k
    ctx.evaluations = k
    ctx.exhaustive = True
    for b in beh[::max(1, n // 3)][:3]:
        ctx.sample({'cfg': b['cfg'], 'norm_script': b['script'], 'spec': expected(b)})
    ctx.rule = ('every maximal behaviour of Solver.tla (6 solver classes x maxiter in %s x 3 tolerance pairs x 9 stall settings x '
                'err_on_non_converge x complex-step; norm alphabet {0,1/4,1,2,4,NaN,Inf}) replayed into the real solver with '
                'scripted norms; non-trivial = distinct behaviours containing a NaN/Inf norm, a stall, or the forced '
                'complex-step iteration' % ('{0,1,2}' if quick else '{0,1,2,3}'))
    ctx.assumptions = ['norm values are injected at _iter_get_norm (its original is still executed)',
                       'ScipyKrylov, BoundsEnforce/ArmijoGoldstein line searches have their own loops (see C10)']
