"""C07 - set_val and get_val round-trip through promotion, indices and units.

Spec: spec/sys/OMSetGet.tla - every addressable name is a view (NdIndex positions of the src_indices chain + unit
factor) of one source; SetVal/GetVal act on the store of sources; FinalSetup and RunModel leave it unchanged.  TLC checks
RoundTrip, OthersUnchanged and PhaseNeutral exhaustively to depth 2 and generates random behaviours to depth 6 (-simulate)
carrying, after every action, the values of ALL views and the read-back; each behaviour is replayed on a fresh real
Problem and every view is compared after every action, so a write before final_setup, after final_setup and after
run_model must have the same effect."""
import numpy as np

from ..tlc import MachineryError
from ..util import pmap, quiet, split

NAMES = {'ivc_x': 'ivc.x', 'c1_a': 'c1.a', 'c4_a': 'c4.a', 'pb': 'pb', 'c2_b': 'c2.b', 'c3_b': 'c3.b'}
NONE = 99999


def fr(x):
    return x[0] / x[1]


def py_idx(t):
    k = t['k']
    if k == 'none':
        return None
    if k == 'int':
        return t['i']
    if k == 'slice':
        return slice(*[None if t[x] == NONE else t[x] for x in ('a', 'b', 's')])
    if k == 'arr':
        return list(t['v'])
    if k == 'tuple':
        return tuple(py_idx(x) for x in t['t'])
    raise ValueError(t)


def build():
    import openmdao.api as om
    p = om.Problem()
    m = p.model
    m.add_subsystem('ivc', om.IndepVarComp('x', np.array([1., 2., 3., 4.]), units='m'))
    m.add_subsystem('c1', om.ExecComp('y = 2*a', a={'val': np.zeros(2), 'units': 'cm'}, y=np.zeros(2)))
    m.add_subsystem('c4', om.ExecComp('y = 3*a', a={'val': np.zeros(3), 'units': 'km'}, y=np.zeros(3)))
    m.add_subsystem('c2', om.ExecComp('y = 5*b', b=np.zeros(2), y=np.zeros(2)))
    m.add_subsystem('c3', om.ExecComp('y = 7*b', b=np.zeros(3), y=np.zeros(3)))
    m.connect('ivc.x', 'c1.a', src_indices=[2, 0])
    m.connect('ivc.x', 'c4.a', src_indices=om.slicer[3:0:-1])
    m.promotes('c2', inputs=[('b', 'pb')], src_indices=[1, -1], src_shape=(3,))
    m.promotes('c3', inputs=[('b', 'pb')])
    m.set_input_defaults('pb', val=np.array([10., 20., 30.]))
    p.setup()
    return p


def views(p):
    out = {}
    for k, n in NAMES.items():
        out[k] = [float(x) for x in np.ravel(p.get_val(n))]
    return out


SCHEDULES = ['setup-only', 'final-first', 'run-first', 'final-mid', 'run-mid', 'run-each']


def scheduled(beh, sched):
    """insert FinalSetup / RunModel actions; their expected views are those of the preceding action"""
    init_views = None
    out = []
    n = len(beh)
    mid = n // 2

    def phase(a, views):
        return {'a': a, 'views': views}
    last = None
    for k, ev in enumerate(beh):
        if sched == 'final-first' and k == 0:
            out.append(phase('FinalSetup', None))
        if sched == 'run-first' and k == 0:
            out.append(phase('RunModel', None))
        if sched == 'final-mid' and k == mid:
            out.append(phase('FinalSetup', last))
        if sched == 'run-mid' and k == mid:
            out.append(phase('RunModel', last))
        out.append(ev)
        last = ev['views']
        if sched == 'run-each':
            out.append(phase('RunModel', last))
    return out


def replay(arg):
    beh, sched = arg
    beh = scheduled(beh, sched)
    p = build()
    bad = []
    phase = 'setup'
    for step, ev in enumerate(beh):
        a = ev['a']
        try:
            if a == 'FinalSetup':
                p.final_setup()
                phase = 'final'
            elif a == 'RunModel':
                p.run_model()
                phase = 'ran'
            else:
                name = NAMES[ev['name']]
                kw = {}
                if ev['units'] != 'default':
                    kw['units'] = ev['units']
                idx = py_idx(ev['idx'])
                if idx is not None:
                    kw['indices'] = idx
                val = [fr(v) for v in ev['val']]
                v = val[0] if ev['scalar'] else np.array(val)
                p.set_val(name, v, **kw)
                rb = [float(x) for x in np.ravel(p.get_val(name, **kw))]
                want = [fr(v) for v in ev['readback']]
                if len(rb) != len(want) or any(abs(x - y) > 1e-9 * (1 + abs(y)) for x, y in zip(rb, want)):
                    bad.append({'step': step, 'phase': phase, 'clause': 'get_val after set_val with the same arguments', 'want': want, 'got': rb})
                    break
            if ev['views'] is None:
                continue
            got = views(p)
            for k in NAMES:
                want = [fr(v) for v in ev['views'][k]]
                if len(got[k]) != len(want) or any(abs(x - y) > 1e-9 * (1 + abs(y)) for x, y in zip(got[k], want)):
                    bad.append({'step': step, 'phase': phase, 'clause': 'value of %s after %s' % (NAMES[k], a), 'want': want, 'got': got[k]})
            if bad:
                break
        except Exception as e:
            bad.append({'step': step, 'phase': phase, 'clause': '%s raised %s' % (a, type(e).__name__), 'want': 'accepted', 'got': str(e)[:300]})
            break
    return bad


def _worker(chunk):
    quiet()
    return [replay(b) for b in chunk]


def pred_abs_input_int_index(scn, info):
    """known C07 finding: after final_setup, set_val on an absolute connected input with an integer index raises"""
    ev = scheduled(scn['behaviour'], scn['schedule'])[scn['failed']['step']]
    return (scn['failed']['phase'] in ('final', 'ran') and ev.get('a') == 'SetVal' and ev['idx']['k'] == 'int'
            and ev['name'] in ('c1_a', 'c4_a', 'c2_b', 'c3_b') and 'raised' in scn['failed']['clause'])


def run(ctx):
    quick = ctx.tier == 'quick'
    cfg = ctx.write_cfg('OMSetGet.cfg', 'CONSTANT Depth = %d\n' % (1 if quick else 2) + 'INIT Init\nNEXT Next\nVIEW View\nINVARIANT RoundTrip\n'
                                         'PROPERTY OthersUnchanged\nPROPERTY PhaseNeutral\n')
    ctx.tlc_check('sys/OMSetGet', cfg, timeout=3000, coverage=False)
    depth = 6
    nbeh = 250 if quick else 4000
    cfgs = ctx.write_cfg('OMSetGet_sim.cfg', 'CONSTANT Depth = %d\nINIT Init\nNEXT NextSet\nINVARIANT Export\n' % depth)
    # -simulate is open-ended here (every behaviour ends in a state without successors): stop it after a time box,
    # and give it a longer one when the machine is busy
    beh = []
    for box in ((60, 240, 900) if quick else (240, 900, 2400)):
        r = ctx.tlc_run('sys/OMSetGet', cfgs, simulate='num=%d' % nbeh, depth=depth + 1, seed=ctx.seed + 1, workers=4,
                        timeout=box)
        r.out = r.out[:r.out.rfind('\n') + 1]      # drop a possibly truncated last line
        beh = r.exports('EXP')[:nbeh]
        if len(beh) >= min(nbeh, 120):
            break
    if len(beh) < 30:
        raise MachineryError('simulation produced only %d behaviours:\n%s' % (len(beh), r.tail(5)))
    ctx.states += 0
    ctx.register_predicates({'C07-abs-input-int-index-after-final-setup': pred_abs_input_int_index})
    jobs = [(b, SCHEDULES[(j + k) % len(SCHEDULES)]) for j, b in enumerate(beh) for k in range(2 if quick else 6)]
    res = [x for rs in pmap(_worker, [c for c in split(jobs, 32) if c]) for x in rs]
    order = [j for c in split(list(range(len(jobs))), 32) if c for j in c]
    nsteps = 0
    for j, bad in zip(order, res):
        b, sched = jobs[j]
        nsteps += len(b)
        if sched != 'setup-only':
            ctx.note_nontrivial(str(j))
        for f in bad:
            ctx.violation({'behaviour': b, 'schedule': sched, 'failed': f}, f['want'], f['got'], '%s [phase %s]' % (f['clause'], f['phase']))
    ctx.impl = len(jobs)
    ctx.evaluations = nsteps
    ctx.extra['actions_replayed'] = nsteps
    for b in beh[:2]:
        ctx.sample([{k: e[k] for k in e if k not in ('views',)} for e in b])
    ctx.rule = ('TLC -simulate behaviours of depth %d over {SetVal(name in 6 addressable names x units arg x 9 index forms x 2 value '
                'bases), FinalSetup, RunModel} on a fixed model (source with units read by two connected inputs through src_indices, '
                'auto-IVC behind a promoted input shared by two inputs, one with src_indices); every action replayed on a real Problem '
                'with all six views compared; non-trivial = behaviours that set values and cross a phase boundary' % depth)
    from vf.drivers import c07gen
    ngen, nev = c07gen.run_generated(ctx)
    ctx.rule += ('; second family: %d generated hierarchical models, histories of set_val (outputs, absolute inputs, promoted names at every level; indices; broadcast) / final_setup / run_model validated event by event (%d events) against OMSetGetTrace.tla with all views compared' % (ngen, nev))
    ctx.assumptions = ['writes that address the same source entry twice (repeated positions) are outside the property and disabled in the spec',
                       'generated models of the second family are feed-forward (no cycles), default solvers, no solver scaling']
