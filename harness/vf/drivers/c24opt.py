"""C24, second family: relevance at the level of the optimisation loop (group_by_pre_opt_post).

A driver that supports optimisation runs the components that do not depend on any design variable once before the loop
("pre"), iterates only over the components between design variables and responses, and runs the components that no
response depends on once afterwards ("post").  A deterministic driver of the harness (it walks a fixed list of design
points, evaluating the model and the total derivatives at each one as an optimizer does) is run on generated models with
non-design independents and dead-end branches, with the grouping enabled and disabled.  TLC (OMJudge.tla) judges, against
the exact denotation at each design point: the responses and the total-derivative blocks seen by the driver at every
point, and the complete model state left behind after the run."""
import copy
import random

import numpy as np

from .. import modelgen as mg, ombuild as ob, sysobs as so
from ..sysdriver import gen_model, run_tlc_judge
from ..tlc import MachineryError
from ..util import pmap, quiet, split

OPTS = {'storage': ['dense', 'rowscols', 'csc'], 'cyc': False, 'bil': 0., 'voi_scaling': False, 'shared': False, 'nivc': 3}


def make_driver(points, md, log):
    from openmdao.core.driver import Driver

    class SeqDriver(Driver):
        """evaluates the model at a fixed sequence of design points, as an optimizer's callbacks do"""
        def __init__(self, **kw):
            super().__init__(**kw)
            self.supports['optimization'] = True
            self.supports['inequality_constraints'] = True
            self.supports['equality_constraints'] = True
            self.supports['gradients'] = True

        def run(self):
            prob = self._problem()
            for pt in points:
                for oid, vals in pt.items():
                    prob.set_val(ob.out_path(md, oid), np.array([float(x) for x in vals]).reshape(md['outs'][oid]['shape']))
                self._run_solve_nonlinear()
                self.iter_count += 1
                rec = {'out': [np.ravel(prob.get_val(ob.out_path(md, o['id']))).copy() for o in md['outs']]}
                rec['J'] = self._compute_totals(return_format='flat_dict', driver_scaling=False)
                log.append(rec)
            return False
    return SeqDriver()


def plan(seed):
    md, ref, rng = gen_model(seed, OPTS)
    if md is None or not md.get('desvars') or not md.get('responses'):
        return None
    # some independents are not design variables, so that components upstream of the loop exist
    md['split_ivc'] = True
    dvs = md['desvars']
    keep = [rng.choice(dvs)] if rng.random() < .7 else ([d for d in dvs if rng.random() < .6] or [rng.choice(dvs)])
    md['desvars'] = keep
    pts = []
    for _ in range(rng.randrange(2, 4)):
        pt = {}
        for d in keep:
            o = md['outs'][d['oid']]
            n = int(np.prod(o['shape']))
            vals = [mg.fr(v) for v in o['val']]
            for q in so.voi_positions(md, d):           # only the entries the design variable addresses move
                vals[q] = mg.F(rng.randrange(-4, 5))
            pt[d['oid']] = vals
        pts.append(pt)
    return md, pts, rng


def observe(seed):
    from openmdao.core.analysis_error import AnalysisError
    quiet()
    pl = plan(seed)
    if pl is None:
        return {'skip': 'rejected', 'seed': seed}
    md, pts, rng = pl
    refs = []
    for pt in pts:
        r = mg.reference(md, {oid: vals for oid, vals in pt.items()})
        if r is None or not mg.magnitude_ok(r):
            return {'skip': 'magnitude', 'seed': seed}
        refs.append(r)
    resp_outs = sorted(set(r['oid'] + 1 for r in md['responses']))
    ofs = [ob.out_path(md, r['oid']) for r in md['responses']]
    wrts = [ob.out_path(md, d['oid']) for d in md['desvars']]
    out = {'seed': seed, 'md': md, 'cases': [], 'tags': [], 'pre': 0, 'post': 0}
    try:
        for grouped in (True, False):
            log = []
            p = ob.build(md, {'mode': rng.choice(['fwd', 'rev']), 'driver': make_driver(pts, md, log),
                              'problem_opts': {'group_by_pre_opt_post': grouped}})
            p.run_driver()
            if grouped:
                out['pre'] = len(p.model._pre_components or ())
                out['post'] = len(p.model._post_components or ())
            final = [np.ravel(p.get_val(ob.out_path(md, o['id']))).copy() for o in md['outs']]
            for k, (pt, ref, rec) in enumerate(zip(pts, refs, log)):
                mdk = copy.deepcopy(md)
                for oid, vals in pt.items():
                    mdk['outs'][oid]['val'] = [so.rj(v) for v in vals]
                blocks = []
                for a, r in enumerate(md['responses']):
                    for b, d in enumerate(md['desvars']):
                        eb = so.ref_block(md, ref, r, d, False)
                        nr, nc = len(eb), len(eb[0]) if eb else 0
                        m = np.atleast_2d(rec['J'][ofs[a], wrts[b]])
                        q = so.qvec(m.ravel(), [x for row in eb for x in row]) if m.shape == (nr, nc) else [so.NANQ] * (nr * nc)
                        blocks.append({'of': a + 1, 'wrt': b + 1, 'm': [q[i * nc:(i + 1) * nc] for i in range(nr)]})
                part = [{'out': [so.qvec(x, e) for x, e in zip(rec['out'], ref['out'])], 'outs': resp_outs}]
                runs = []
                if k == len(pts) - 1:
                    runs = [{'out': [so.qvec(x, e) for x, e in zip(final, ref['out'])], 'inp': [], 'chk': [], 'fix': True}]
                cfgs = [{'mode': 'auto', 'scaled': False, 'full': [[[so.rj(x) for x in row] for row in mm] for mm in so.ref_full(md, ref)],
                         'blocks': blocks}]
                case = so.case_record(mdk, ref, runs, cfgs)
                case['part'] = part
                out['cases'].append(case)
                out['tags'].append({'grouped': grouped, 'point': k})
        return out
    except AnalysisError:
        # a solver of the generated stack did not reach its (1e-14) tolerance: no claim without convergence
        return {'skip': 'noconv', 'seed': seed}
    except Exception as ex:
        import traceback
        return {'seed': seed, 'exc': '%s: %s' % (type(ex).__name__, ex), 'tb': traceback.format_exc()[-1500:], 'md': md}


def _worker(chunk):
    return [observe(s) for s in chunk]


def run_opt_loop(ctx):
    quick = ctx.tier == 'quick'
    n = 160 if quick else 2000
    base = 5000000 + 1000003 * (ctx.seed % 1000)
    res = [r for rs in pmap(_worker, [c for c in split(list(range(base, base + n)), 48) if c]) for r in rs]
    res.sort(key=lambda r: r['seed'])
    excs = [r for r in res if 'exc' in r]
    if len(excs) > len(res) // 10:
        raise MachineryError('c24opt: %d harness exceptions, first: %s\n%s' % (len(excs), excs[0]['exc'], excs[0]['tb']))
    good = [r for r in res if 'cases' in r]
    if len(good) < n // 4:
        raise MachineryError('c24opt: only %d of %d models usable' % (len(good), n))
    flat = [(r, j) for r in good for j in range(len(r['cases']))]
    v = run_tlc_judge(ctx, [r['cases'][j] for r, j in flat], tag='optloop')
    npts = 0
    for k, (r, j) in enumerate(flat):
        vd = v[k + 1]
        tag = r['tags'][j]
        scn = {'seed': r['seed'], 'grouped': tag['grouped'], 'point': tag['point'], 'pre': r['pre'], 'post': r['post'], 'model': r['md']}
        if not vd['oracle']:
            raise MachineryError('c24opt: the harness reference disagrees with the specification (seed %d)' % r['seed'])
        npts += 1
        if r['pre'] or r['post']:
            ctx.note_nontrivial('opt%d:%d:%s' % (r['seed'], tag['point'], tag['grouped']))
        pref = '[optimisation loop, group_by_pre_opt_post=%s] ' % tag['grouped']
        if not all(vd['part']):
            ctx.violation(scn, 'responses seen by the driver = exact responses at the design point', r['cases'][j]['part'][0]['out'],
                          pref + 'a response evaluated in the loop differs from the exact value')
        if not all(c['blocks'] for c in vd['cfgs']):
            ctx.violation(scn, 'exact blocks', r['cases'][j]['cfgs'][0]['blocks'],
                          pref + 'a total-derivative block computed in the loop differs from the exact derivative')
        if vd['runs'] and not all(x['out'] for x in vd['runs']):
            ctx.violation(scn, 'every output converged at the last design point', r['cases'][j]['runs'][0]['out'],
                          pref + 'the model state left after the run is not the converged state of the last design point')
    for x in excs:
        ctx.violation({'seed': x['seed'], 'model': x['md']}, 'run_driver succeeds', x['exc'], '[optimisation loop] exception: ' + x['exc'].split(':')[0],
                      snippet=x['tb'])
    ctx.impl += npts
    ctx.evaluations += npts
    ctx.extra['optimisation_loop'] = {'models': len(good), 'design_points_judged': npts,
                                      'models_with_pre_or_post_components': sum(1 for r in good if r['pre'] or r['post']),
                                      'skipped': len(res) - len(good) - len(excs)}
    return len(good), npts
