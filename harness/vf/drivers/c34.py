"""C34 - function-based and jax components compute their functions and exact partials.

Spec: spec/mech/Expr.tla (the same trees, derivative trees D(e,x) and domain side-conditions as C14).  Every exported
tree is rendered as Python source: a plain function of NumPy calls wrapped with openmdao.func_api for ExplicitFuncComp /
ImplicitFuncComp (declare_partials method 'cs' or 'jax', optional declare_coloring), and a JaxExplicitComponent /
JaxImplicitComponent subclass whose compute_primal is written with jax.numpy (automatic or declared partials, optional
declare_coloring, use_jit on/off, matrix_free).  Implicit forms: R(x, y) = y - e(x)  or  R(x0, y) = e(x0, y) (the second
variable of the tree is the state).  Outputs / residuals and partials (totals for explicit components, component
sub-Jacobians for all) are compared with the spec's trees evaluated by NumPy.

Second family ('multi'): components with SEVERAL inputs and outputs / states.  spec/mech/FuncSig.tla enumerates every
structure (argument order of the function: states before / between / after the inputs, order of the return values,
order of the add_output calls, named or positional return values, shapes -> partial derivative direction) and checks the
laws of the positional bookkeeping; spec/mech/FuncSigJudge.tla composes a seeded selection of structures with Expr.tla
trees and derives, by NAME, the expected residual / output trees, every Jacobian block D(tree, argument) and the domain
side-conditions.  The scenarios are rendered as source and replayed like the single-output ones."""
import importlib.util
import json
import os
import random

from ..tlc import MachineryError
from ..util import pmap, split, quiet
from . import c14
from .c14 import render, ev, choose_point, expected, tree_funcs, has_branch, UN_ALL, UN_QUICK, BIN_ALL

RTOL = 1.0e-9
NOT_CS_SAFE = {'abs', 'arctan2'}            # np.abs / np.arctan2 of a complex argument: not usable under complex step
KINDS_FUNC = ['efc', 'ifc']
KINDS_JAX = ['jexp', 'jimp']
SHP = {'s': (), 's1': (1,), 'v': (3,), 'm': (2, 2)}


# ---------------------------------------------------------------------------------------------------------------------
# configurations
# ---------------------------------------------------------------------------------------------------------------------
def shape_sets(nvars, thorough):
    arr = ['v', 'm'] if thorough else ['v']
    if nvars == 1:
        return [('s',), ('s1',)] + [(a,) for a in arr]
    out = [('s', 's'), ('s1', 's1')]
    for a in arr:
        out += [(a, a), (a, 's1'), ('s1', a)]
    return out


def configs_for(rec, thorough):
    nv = len(rec['vars'])
    funcs = tree_funcs(rec['e'])
    cs_ok = not (funcs & NOT_CS_SAFE)
    out = {'cs': [], 'jax': []}
    for sh in shape_sets(nv, thorough):
        arrays = any(s in ('v', 'm') for s in sh)
        forms = ['lin'] + (['state'] if nv == 2 and sh[0] == sh[1] else [])
        for kind in ('efc', 'ifc'):
            for form in (forms if kind == 'ifc' else ['-']):
                for meth in ('cs', 'jax'):
                    if meth == 'cs' and not cs_ok:
                        continue
                    for col in ((False, True) if arrays else (False,)):
                        for jit in ((True, False) if meth == 'jax' else (True,)):
                            out[meth].append({'kind': kind, 'form': form, 'shapes': list(sh), 'meth': meth, 'col': col,
                                              'jit': jit, 'decl': 'star', 'mf': False, 'mode': 'auto'})
        if 's' in sh:
            continue        # OpenMDAO components: scalars are (1,)
        for kind in ('jexp', 'jimp'):
            for form in (forms if kind == 'jimp' else ['-']):
                for decl in ('auto', 'star'):
                    for col in ((False, True) if arrays else (False,)):
                        for jit in (True, False):
                            out['jax'].append({'kind': kind, 'form': form, 'shapes': list(sh), 'meth': 'jax', 'col': col,
                                               'jit': jit, 'decl': decl, 'mf': False, 'mode': 'auto'})
                if kind == 'jexp':
                    out['jax'].append({'kind': kind, 'form': form, 'shapes': list(sh), 'meth': 'jax', 'col': False,
                                       'jit': True, 'decl': 'auto', 'mf': True, 'mode': 'auto'})
    return out


def yshape_of(cfg):
    arrays = [s for s in cfg['shapes'] if s in ('v', 'm')]
    if arrays:
        return SHP[arrays[0]]
    return SHP[cfg['shapes'][0]]


def roles(rec, cfg):
    """(input variables, state variable or None): in the 'state' form the last variable of the tree is the state y"""
    names = sorted(rec['vars'])
    if cfg['form'] == 'state':
        return names[:-1], names[-1]
    return names, None


# ---------------------------------------------------------------------------------------------------------------------
# source generation
# ---------------------------------------------------------------------------------------------------------------------
def gen_source(rec, cfg, tag):
    names = sorted(rec['vars'])
    ins, state = roles(rec, cfg)
    ysh = yshape_of(cfg)
    shapes = {v: SHP[s] for v, s in zip(names, cfg['shapes'])}
    if cfg['kind'] in ('efc', 'ifc'):
        body = render(rec['e'], 'np', 'np.')
        if cfg['kind'] == 'efc':
            return ('def f_%s(%s):\n    y = %s\n    return y\n' % (tag, ', '.join(names), body))
        if state is None:
            return ('def f_%s(%s, y):\n    r = y - %s\n    return r\n' % (tag, ', '.join(names), body))
        body = render(_rename(rec['e'], state, 'y'), 'np', 'np.')
        return ('def f_%s(%s, y):\n    r = %s\n    return r\n' % (tag, ', '.join(ins), body))
    body = render(rec['e'], 'np', 'jnp.')
    base = 'JaxExplicitComponent' if cfg['kind'] == 'jexp' else 'JaxImplicitComponent'
    src = ['class C_%s(om.%s):' % (tag, base), '    def setup(self):']
    for v in ins:
        src.append('        self.add_input(%r, shape=%r)' % (v, shapes[v]))
    src.append('        self.add_output(\'y\', shape=%r)' % (ysh,))
    sp = []
    if cfg['decl'] == 'star':
        sp.append('        self.declare_partials(of=\'*\', wrt=\'*\')')
    if cfg['col']:
        sp.append('        self.declare_coloring()')
    if sp:
        src.append('    def setup_partials(self):')
        src += sp
    if cfg['kind'] == 'jexp':
        src += ['    def compute_primal(self, %s):' % ', '.join(ins), '        y = %s' % body, '        return y']
    elif state is None:
        src += ['    def compute_primal(self, %s, y):' % ', '.join(ins), '        return y - %s' % body]
    else:
        body = render(_rename(rec['e'], state, 'y'), 'np', 'jnp.')
        src += ['    def compute_primal(self, %s, y):' % ', '.join(ins), '        return %s' % body]
    return '\n'.join(src) + '\n'


def _rename(t, old, new):
    if t['t'] == 'var':
        return dict(t, f=new) if t['f'] == old else t
    return dict(t, c=[_rename(c, old, new) for c in t['c']])


HEADER = 'import numpy as np\nimport jax.numpy as jnp\nimport openmdao.api as om\n\n'


def load_module(path, name):
    spec = importlib.util.spec_from_file_location(name, path)
    mod = importlib.util.module_from_spec(spec)
    spec.loader.exec_module(mod)
    return mod


# ---------------------------------------------------------------------------------------------------------------------
# build / observe / compare
# ---------------------------------------------------------------------------------------------------------------------
def build(rec, cfg, obj):
    import numpy as np
    import openmdao.api as om
    import openmdao.func_api as omf
    names = sorted(rec['vars'])
    ins, state = roles(rec, cfg)
    ysh = yshape_of(cfg)
    shapes = {v: SHP[s] for v, s in zip(names, cfg['shapes'])}
    if cfg['kind'] in ('efc', 'ifc'):
        w = omf.wrap(obj)
        for v in ins:
            w.add_input(v, shape=shapes[v])
        if cfg['kind'] == 'efc':
            w.add_output('y', shape=ysh)
        else:
            w.add_output('y', resid='r', shape=ysh)
        w.declare_partials(of='*', wrt='*', method=cfg['meth'])
        if cfg['col']:
            w.declare_coloring(wrt='*', method=cfg['meth'], show_summary=False)
        kw = {} if cfg['jit'] else {'use_jit': False}
        comp = om.ExplicitFuncComp(w, **kw) if cfg['kind'] == 'efc' else om.ImplicitFuncComp(w, **kw)
    else:
        kw = {} if cfg['jit'] else {'use_jit': False}
        if cfg['mf']:
            kw['matrix_free'] = True
        comp = obj(**kw)
    p = om.Problem()
    p.model.add_subsystem('c', comp)
    p.setup(force_alloc_complex=(cfg['meth'] == 'cs'))
    p.final_setup()
    return p, comp


def observe(p, comp, rec, cfg, pt, yval):
    import numpy as np
    ins, state = roles(rec, cfg)
    implicit = cfg['kind'] in ('ifc', 'jimp')
    for v in ins:
        p.set_val('c.' + v, pt[v])
    o = {'sub': {}}
    if implicit:
        p.set_val('c.y', pt[state] if state else yval)
        p.model.run_apply_nonlinear()
        res = np.array(comp._residuals['y'], dtype=float)
        o['val'], o['shape'] = res.ravel(), tuple(res.shape)
        if not cfg['mf']:
            p.model.run_linearize()
    else:
        p.run_model()
        y = np.array(p.get_val('c.y'), dtype=float)
        o['val'], o['shape'] = y.ravel(), tuple(y.shape)
        tot = p.compute_totals(of=['c.y'], wrt=['c.' + v for v in ins])
        o['tot'] = {v: np.array(tot['c.y', 'c.' + v], dtype=float) for v in ins}
    if not cfg['mf']:
        sj = comp._get_jacobian()._get_subjacs()
        for v in ins + (['y'] if implicit else []):
            key = ('c.y', 'c.' + v)
            if key in sj:
                o['sub'][v] = np.array(sj[key].todense(), dtype=float)
    col = comp._coloring_info.coloring
    o['colors'] = None if col is None else int(col.total_solves())
    return o


def spec_values(rec, cfg, pt, yval):
    """expected output/residual and blocks {wrt: dense} from the spec's trees"""
    import numpy as np
    ins, state = roles(rec, cfg)
    ysh = yshape_of(cfg)
    ey, eJ, mag = expected(rec, pt, ysh)
    ny = ey.size
    if cfg['kind'] in ('efc', 'jexp'):
        return ey, {v: eJ[v] for v in ins}, mag
    if state is None:
        yv = np.asarray(yval, dtype=float).reshape(ny)
        J = {v: -eJ[v] for v in ins}
        J['y'] = np.eye(ny)
        return yv - ey, J, max(mag, float(np.max(np.abs(yv))))
    J = {v: eJ[v] for v in ins}
    J['y'] = eJ[state]
    return ey, J, mag


def compare(rec, cfg, obj, pts, yvals):
    import numpy as np
    fails = []
    info = {}
    try:
        p, comp = build(rec, cfg, obj)
    except Exception as e:
        return [('setup of a legal configuration raised %s' % type(e).__name__, 'setup succeeds', str(e)[:400], 0)], info
    ysh = yshape_of(cfg)
    for ip, pt in enumerate(pts):
        ev_, eJ, mag = spec_values(rec, cfg, pt, yvals[ip])
        tol = RTOL * mag
        try:
            o = observe(p, comp, rec, cfg, pt, yvals[ip])
        except Exception as e:
            fails.append(('evaluation / linearization raised %s' % type(e).__name__, 'succeeds', str(e)[:400], ip))
            break
        if ip == 0:
            info['colors'] = o['colors']
        what = 'residual' if cfg['kind'] in ('ifc', 'jimp') else 'output'
        if o['shape'] != tuple(ysh):
            fails.append(('%s shape' % what, list(ysh), list(o['shape']), ip))
            break
        if not np.all(np.abs(o['val'] - ev_) <= tol):
            fails.append(('%s differs from the tree evaluated with NumPy' % what, ev_, o['val'], ip))
        for v, E in eJ.items():
            if 'tot' in o and v in o['tot']:
                T = o['tot'][v]
                if T.shape != E.shape or not np.all(np.abs(T - E) <= tol):
                    fails.append(('total derivative dy/d%s differs from the spec derivative tree' % v, E, T, ip))
            if cfg['mf']:
                continue
            S = o['sub'].get(v)
            if S is None:
                if np.any(np.abs(E) > tol):
                    fails.append(('sub-Jacobian (y,%s) is absent but the exact derivative is nonzero' % v, E, None, ip))
            elif S.shape != E.shape or not np.all(np.abs(S - E) <= tol):
                fails.append(('sub-Jacobian (y,%s) differs from the spec derivative tree' % v, E, S, ip))
    return fails, info



# ---------------------------------------------------------------------------------------------------------------------
# 'multi' family: several inputs and outputs / states (spec/mech/FuncSig.tla, FuncSigJudge.tla)
# ---------------------------------------------------------------------------------------------------------------------
SIG_LAWS = ['TypeOK', 'ColsLaw', 'OffsetLaw', 'RotationLaw', 'DirLaw', 'KeptLaw']
JUDGE_LAWS = ['JWellFormed', 'JZeroLaw', 'JLinLaw', 'JRenLaw', 'JOrderLaw']


def enumerate_structures(ctx, thorough, workers=None):
    """every structure of FuncSig.tla (laws checked by TLC) with the derived direction / column layout"""
    cfg = ctx.write_cfg('FuncSig.cfg', '\n'.join(
        ['CONSTANTS', '  MaxIn = 3', '  MaxOut = 2', '  YShapes = %s' % c14.tla_set(['s1', 'v', 'm'] if thorough else ['s1', 'v']),
         'INIT Init', 'NEXT Next'] + ['INVARIANT %s' % l for l in SIG_LAWS] + ['INVARIANT Export']) + '\n')
    kw = {'timeout': 1800, 'heap': '4g', 'coverage': False}
    if workers:
        kw['workers'] = workers
    r = ctx.tlc_check('mech/FuncSig', cfg, **kw)
    st = r.exports('EXP')
    if not st or len(st) + len({json.dumps(x['s']['sig']) for x in st}) < 100:
        raise MachineryError('FuncSig exported %d structures:\n%s' % (len(st), r.tail()))
    return st


def struct_class(st):
    """coverage class of a structure: component kind, direction of the partials, where the states are in the signature"""
    s, v = st['s'], st['v']
    kind = {(True, 'func'): 'ifc', (False, 'func'): 'efc', (True, 'class'): 'jimp', (False, 'class'): 'jexp'}[
        (bool(s['impl']), s['api'])]
    if not s['impl']:
        where = 'perm' if s['sig'] != sorted(s['sig']) else 'sorted'
    elif not v['kept']:
        where = 'state-order-differs'
    elif v['trail']:
        where = 'states-last'
    else:
        where = 'interleaved'
    return kind, v['dir'], where


def multi_configs(st, thorough):
    kind = struct_class(st)[0]
    arrays = st['s']['ysh'] != 's1'
    out = {'cs': [], 'jax': []}
    if kind in ('efc', 'ifc'):
        for meth in ('cs', 'jax'):
            for col in ((False, True) if arrays else (False,)):
                for jit in ((True, False) if meth == 'jax' else (True,)):
                    out[meth].append({'fam': 'multi', 'kind': kind, 'meth': meth, 'col': col, 'jit': jit, 'decl': 'star',
                                      'mf': False})
    else:
        for decl in ('auto', 'star'):
            for col in ((False, True) if arrays else (False,)):
                for jit in (True, False):
                    out['jax'].append({'fam': 'multi', 'kind': kind, 'meth': 'jax', 'col': col, 'jit': jit, 'decl': decl,
                                       'mf': False})
    return out


def compose_case(st, recs, rnd, cs_only):
    """a structure + one Expr.tla tree per output with its variables bound to arguments (spec: FuncSigJudge.Legal)"""
    s = st['s']
    outs = sorted(s['ret'])
    args = list(s['sig'])
    full = [a for a in args if a in outs or s['ish'][a] == s['ysh']]
    trees, bind, form = {}, {}, {}
    for o in outs:
        for _ in range(200):
            rec = recs[rnd.randrange(len(recs))]
            if cs_only and (tree_funcs(rec['e']) & NOT_CS_SAFE):
                continue
            break
        else:
            return None
        used = sorted(rec['vars'])
        form[o] = rnd.choice(['lin', 'raw', 'raw']) if s['impl'] else 'raw'
        for _ in range(50):
            b = {'x0': rnd.choice(args), 'x1': rnd.choice(args)}
            if len(args) > 1 and b['x0'] == b['x1'] and rnd.random() < 0.8:
                continue                       # mostly injective bindings (distinct blocks)
            if form[o] == 'lin' or any(b[v] in full for v in used):
                break
        else:
            form[o] = 'lin' if s['impl'] else None
            if form[o] is None:
                return None
        trees[o], bind[o] = rec['e'], b
    return {'sc': s, 'trees': trees, 'bind': bind, 'form': form}


def judge_cases(ctx, cases, workers=None):
    """FuncSigJudge.tla: expected trees / blocks / domains of every composed case"""
    path = ctx.write_json('c34_cases.json', cases)
    cfg = ctx.write_cfg('FuncSigJudge.cfg', '\n'.join(
        ['CONSTANTS', '  MaxIn = 3', '  MaxOut = 2', '  YShapes = {"s1", "v", "m"}', 'INIT JInit', 'NEXT JNext'] +
        ['INVARIANT %s' % l for l in JUDGE_LAWS] + ['INVARIANT JExport']) + '\n')
    kw = {'timeout': 1800, 'heap': '4g', 'coverage': False, 'env': {'C34_CASES': path}}
    if workers:
        kw['workers'] = workers
    r = ctx.tlc_check('mech/FuncSigJudge', cfg, **kw)
    got = {e['tid']: e for e in r.exports('EXP')}
    if len(got) != len(cases) or r.distinct != 2 * len(cases):
        raise MachineryError('FuncSigJudge returned %d verdicts for %d cases (%d states):\n%s'
                             % (len(got), len(cases), r.distinct, r.tail()))
    out = []
    for i in range(len(cases)):
        e = got[i + 1]
        if not e['legal'] or len(e['x']) != 1:
            raise MachineryError('FuncSigJudge: case %d composed by the harness is not legal: %s'
                                 % (i + 1, json.dumps(cases[i])[:600]))
        out.append(dict(e['x'][0]['core'], v=e['x'][0]['v']))
    return out


def m_args(case):
    return list(case['sc']['sig'])


def m_outs(case):
    return sorted(case['sc']['ret'])


def m_shapes(case):
    s = case['sc']
    return {a: SHP[s['ysh'] if a in s['ret'] else s['ish'][a]] for a in list(s['sig']) + list(s['ret'])}


def m_inorder(case):
    s = case['sc']
    return [a for a in s['sig'] if a not in s['ret']]


def gen_source_multi(case, x, cfg, tag):
    s = case['sc']
    impl = bool(s['impl'])
    lib = 'np.' if s['api'] == 'func' else 'jnp.'
    expr = {o: render(x['res'][o], 'np', lib) for o in s['ret']}
    if s['api'] == 'func':
        src = ['def f_%s(%s):' % (tag, ', '.join(s['sig']))]
        if s['style'] == 'named':
            rn = {o: ('r_' + o if impl else o) for o in s['ret']}
            for o in sorted(s['ret']):
                src.append('    %s = %s' % (rn[o], expr[o]))
            src.append('    return %s' % ', '.join(rn[o] for o in s['ret']))
        else:
            src.append('    return %s' % ', '.join(expr[o] for o in s['ret']))
        return '\n'.join(src) + '\n'
    shapes = m_shapes(case)
    base = 'JaxImplicitComponent' if impl else 'JaxExplicitComponent'
    src = ['class C_%s(om.%s):' % (tag, base), '    def setup(self):']
    for a in m_inorder(case):
        src.append('        self.add_input(%r, shape=%r)' % (a, shapes[a]))
    for o in s['decl']:
        src.append('        self.add_output(%r, shape=%r)' % (o, shapes[o]))
    sp = []
    if cfg['decl'] == 'star':
        sp.append('        self.declare_partials(of=\'*\', wrt=\'*\')')
    if cfg['col']:
        sp.append('        self.declare_coloring()')
    if sp:
        src.append('    def setup_partials(self):')
        src += sp
    src += ['    def compute_primal(self, %s):' % ', '.join(s['sig']),
            '        return %s' % ', '.join(expr[o] for o in s['decl'])]
    return '\n'.join(src) + '\n'


def build_multi(case, cfg, obj):
    import openmdao.api as om
    import openmdao.func_api as omf
    s = case['sc']
    shapes = m_shapes(case)
    kw = {} if cfg['jit'] else {'use_jit': False}
    if s['api'] == 'func':
        w = omf.wrap(obj)
        for a in sorted(m_inorder(case)):
            w.add_input(a, shape=shapes[a])
        for o in s['decl']:
            if s['impl']:
                w.add_output(o, resid='r_' + o, shape=shapes[o])
            else:
                w.add_output(o, shape=shapes[o])
        w.declare_partials(of='*', wrt='*', method=cfg['meth'])
        if cfg['col']:
            w.declare_coloring(wrt='*', method=cfg['meth'], show_summary=False)
        comp = om.ImplicitFuncComp(w, **kw) if s['impl'] else om.ExplicitFuncComp(w, **kw)
    else:
        comp = obj(**kw)
    p = om.Problem()
    p.model.add_subsystem('c', comp)
    p.setup(force_alloc_complex=(cfg['meth'] == 'cs'))
    p.final_setup()
    return p, comp


def observe_multi(p, comp, case, pt):
    import numpy as np
    s = case['sc']
    outs, ins = m_outs(case), m_inorder(case)
    for a in ins:
        p.set_val('c.' + a, pt[a])
    o = {'val': {}, 'sub': {}, 'tot': {}}
    if s['impl']:
        for y in outs:
            p.set_val('c.' + y, pt[y])
        p.model.run_apply_nonlinear()
        for y in outs:
            o['val'][y] = np.array(comp._residuals[y], dtype=float)
        p.model.run_linearize()
    else:
        p.run_model()
        for y in outs:
            o['val'][y] = np.array(p.get_val('c.' + y), dtype=float)
        tot = p.compute_totals(of=['c.' + y for y in outs], wrt=['c.' + a for a in ins])
        o['tot'] = {(y, a): np.array(tot['c.' + y, 'c.' + a], dtype=float) for y in outs for a in ins}
    sj = comp._get_jacobian()._get_subjacs()
    for y in outs:
        for a in s['sig']:
            key = ('c.' + y, 'c.' + a)
            if key in sj:
                o['sub'][(y, a)] = np.array(sj[key].todense(), dtype=float)
    col = comp._coloring_info.coloring
    o['colors'] = None if col is None else int(col.total_solves())
    o['dir'] = comp.best_partial_deriv_direction()
    return o


def multi_recs(case, x):
    """per output a record in the form of an Expr.tla export (tree, derivative trees, variables)"""
    return {o: {'e': x['res'][o], 'd': {w: x['d'][o][w] for w in x['vars'][o]}, 'vars': sorted(x['vars'][o])}
            for o in m_outs(case)}


def multi_point_rec(case, x):
    """one record whose constraints / magnitudes cover every output, for c14.choose_point"""
    def add(ts):
        t = ts[0]
        for u in ts[1:]:
            t = {'t': 'bin', 'f': 'add', 'k': 0, 'c': [t, u]}
        return t
    outs, args = m_outs(case), m_args(case)
    dom = [cn for o in outs for cn in x['dom'][o]]
    return {'vars': args, 'dom': dom, 'e': add([x['res'][o] for o in outs]),
            'd': {w: add([x['d'][o][w] for o in outs]) for w in args}}


def nonsmooth_multi(x):
    return any(tree_funcs(t) & {'maximum', 'minimum', 'abs'} for t in x['res'].values())


def compare_multi(case, x, cfg, obj, pts):
    import numpy as np
    fails, info = [], {}
    s = case['sc']
    try:
        p, comp = build_multi(case, cfg, obj)
    except Exception as e:
        return [('setup of a legal configuration raised %s' % type(e).__name__, 'setup succeeds', str(e)[:400], 0)], info
    shapes = m_shapes(case)
    ysh = SHP[s['ysh']]
    ny = int(np.prod(ysh))
    recs = multi_recs(case, x)
    what = 'residual' if s['impl'] else 'output'
    for ip, pt in enumerate(pts):
        try:
            o = observe_multi(p, comp, case, pt)
        except Exception as e:
            fails.append(('evaluation / linearization raised %s' % type(e).__name__, 'succeeds', str(e)[:400], ip))
            break
        if ip == 0:
            info['colors'], info['dir'] = o['colors'], o['dir']
        exp = {y: expected(recs[y], pt, ysh) for y in recs}
        tol = RTOL * max(e[2] for e in exp.values())
        for y in sorted(recs):
            ev_, eJ, _ = exp[y]
            val = o['val'][y]
            if tuple(val.shape) != tuple(ysh):
                fails.append(('%s %s shape' % (what, y), list(ysh), list(val.shape), ip))
                continue
            if not np.all(np.abs(val.ravel() - ev_) <= tol):
                fails.append(('%s %s differs from the wrapped function (the spec tree evaluated with NumPy)' % (what, y),
                              ev_, val.ravel(), ip))
            for w in s['sig']:
                E = eJ[w] if w in eJ else np.zeros((ny, int(np.prod(shapes[w]))))
                if (y, w) in o['tot']:
                    T = o['tot'][(y, w)]
                    if T.shape != E.shape or not np.all(np.abs(T - E) <= tol):
                        fails.append(('total derivative d%s/d%s differs from the spec derivative tree' % (y, w), E, T, ip))
                S = o['sub'].get((y, w))
                if S is None:
                    if np.any(np.abs(E) > tol):
                        fails.append(('sub-Jacobian (%s,%s) is absent but the exact derivative is nonzero' % (y, w), E,
                                      None, ip))
                elif S.shape != E.shape or not np.all(np.abs(S - E) <= tol):
                    fails.append(('sub-Jacobian (%s,%s) differs from the spec derivative tree' % (y, w), E, S, ip))
        if fails:
            break
    return fails, info


def multi_points(case, x, cfg, rs):
    rec = multi_point_rec(case, x)
    shapes = m_shapes(case)
    pts = []
    for _ in range(cfg.get('npts', 2)):
        pt = choose_point(rec, {a: shapes[a] for a in rec['vars']}, rs)
        if pt is None:
            break
        pts.append(pt)
    return pts


def run_one_multi(case, x, cfg, pts, workdir):
    import numpy as np
    quiet()
    path = os.path.join(workdir, 'c34onem.py')
    with open(path, 'w') as f:
        f.write(HEADER + gen_source_multi(case, x, cfg, 'k'))
    mod = load_module(path, 'c34onem')
    obj = getattr(mod, ('f_' if case['sc']['api'] == 'func' else 'C_') + 'k')
    pts = [{v: np.array(a, dtype=float) for v, a in pt.items()} for pt in pts]
    return compare_multi(case, x, cfg, obj, pts)


def snippet_multi(case, x, cfg, pts):
    return '\n'.join([
        '# PYTHONPATH=/verif/harness JAX_PLATFORMS=cpu /venv/bin/python this_file.py',
        'import numpy as np, json, os, tempfile',
        'from vf.drivers import c34',
        'case = json.loads(%r)' % json.dumps(case),
        'x = json.loads(%r)   # expectation derived by spec/mech/FuncSigJudge.tla' % json.dumps(x),
        'cfg = json.loads(%r)' % json.dumps(cfg),
        'pts = json.loads(%r)' % json.dumps(pts),
        'print(c34.gen_source_multi(case, x, cfg, "k"))',
        'print(c34.run_one_multi(case, x, cfg, pts, tempfile.mkdtemp()))'])


# ---------------------------------------------------------------------------------------------------------------------
# sampled sparsity: declare_coloring and every jax component keep the sparsity seen at the first linearization
# ---------------------------------------------------------------------------------------------------------------------
def samples_sparsity(cfg):
    return bool(cfg.get('col')) or cfg['kind'] in ('jexp', 'jimp')


def stale_risk(blocks, tols):
    """blocks[k]: {key: dense exact block at point k}, tols[k] the comparison tolerance there.  True when an entry that
    cannot be told from zero at the first point (within the tolerance: a saturated tanh, an underflowing exp, a
    cancellation ... of a smooth function; the numerically computed derivative may be exactly 0 there) is nonzero at a
    later point: the component may keep treating it as structurally zero (the documented limitation of a sampled
    sparsity; C14 records it as C14-coloring-stale-sparsity-underflow)."""
    import numpy as np
    if len(blocks) < 2:
        return False
    for k in range(1, len(blocks)):
        for key, E in blocks[k].items():
            E0 = blocks[0][key]
            if np.any((np.abs(E) > tols[k]) & (np.abs(E0) <= tols[0])):
                return True
    return False


def limit_points(rec, cfg, pts, yvals):
    """single-output family: keep only the first point when the sampled sparsity would be stale at a later one"""
    if not samples_sparsity(cfg) or len(pts) < 2:
        return pts, yvals, False
    vals = [spec_values(rec, cfg, pt, yv) for pt, yv in zip(pts, yvals)]
    if stale_risk([v[1] for v in vals], [RTOL * v[2] for v in vals]):
        return pts[:1], yvals[:1], True
    return pts, yvals, False


def limit_points_multi(case, x, cfg, pts):
    import numpy as np
    if not samples_sparsity(cfg) or len(pts) < 2:
        return pts, False
    recs = multi_recs(case, x)
    ysh = SHP[case['sc']['ysh']]
    blocks, tols = [], []
    for pt in pts:
        exp = {y: expected(recs[y], pt, ysh) for y in recs}
        blocks.append({(y, w): E for y in exp for w, E in exp[y][1].items()})
        tols.append(RTOL * max(e[2] for e in exp.values()))
    if stale_risk(blocks, tols):
        return pts[:1], True
    return pts, False


_MCASES = []


_RECS = []
_WORK = None


def _is_multi(cfg):
    return cfg.get('fam') == 'multi'


def _worker(arg):
    import numpy as np
    chunk_id, jobs = arg
    quiet()
    import jax
    jax.config.update('jax_enable_x64', True)
    # one generated module per chunk (the components parse their function source, so it has to be a real file)
    src = [HEADER]
    for j, (i, cfg, seed) in enumerate(jobs):
        tag = '%d_%d' % (chunk_id, j)
        if _is_multi(cfg):
            src.append(gen_source_multi(_MCASES[i]['case'], _MCASES[i]['x'], cfg, tag))
        else:
            src.append(gen_source(_RECS[i], cfg, tag))
    path = os.path.join(_WORK, 'c34gen_%d.py' % chunk_id)
    with open(path, 'w') as f:
        f.write('\n'.join(src))
    mod = load_module(path, 'c34gen_%d' % chunk_id)
    out = []
    for j, (i, cfg, seed) in enumerate(jobs):
        rs = np.random.RandomState(seed)
        tag = '%d_%d' % (chunk_id, j)
        if _is_multi(cfg):
            case, x = _MCASES[i]['case'], _MCASES[i]['x']
            pts = multi_points(case, x, cfg, rs)
            if not pts:
                out.append({'i': i, 'cfg': cfg, 'skip': 'no point satisfies the domain constraints'})
                continue
            obj = getattr(mod, ('f_' if case['sc']['api'] == 'func' else 'C_') + tag)
            pts, cut = limit_points_multi(case, x, cfg, pts)
            fails, info = compare_multi(case, x, cfg, obj, pts)
            info['single_point_underflow'] = cut
            out.append({'i': i, 'cfg': cfg, 'pts': [{v: a.tolist() for v, a in pt.items()} for pt in pts], 'yvals': [],
                        'src': gen_source_multi(case, x, cfg, 'k'),
                        'fails': [(f[0], c14._l(f[1]), c14._l(f[2]), f[3]) for f in fails[:4]], 'info': info})
            continue
        rec = _RECS[i]
        names = sorted(rec['vars'])
        shapes = {v: SHP[s] for v, s in zip(names, cfg['shapes'])}
        pts = []
        for _ in range(cfg.get('npts', 2)):
            pt = choose_point(rec, shapes, rs)
            if pt is None:
                break
            pts.append(pt)
        if not pts:
            out.append({'i': i, 'cfg': cfg, 'skip': 'no point satisfies the domain constraints'})
            continue
        ysh = yshape_of(cfg)
        yvals = [np.round(rs.uniform(-2, 2, size=ysh), 3) for _ in pts]
        obj = getattr(mod, ('f_' if cfg['kind'] in ('efc', 'ifc') else 'C_') + tag)
        pts, yvals, cut = limit_points(rec, cfg, pts, yvals)
        fails, info = compare(rec, cfg, obj, pts, yvals)
        info['single_point_underflow'] = cut
        out.append({'i': i, 'cfg': cfg, 'pts': [{v: a.tolist() for v, a in pt.items()} for pt in pts],
                    'yvals': [a.tolist() for a in yvals], 'src': gen_source(rec, cfg, 'k'),
                    'fails': [(f[0], c14._l(f[1]), c14._l(f[2]), f[3]) for f in fails[:4]], 'info': info})
    return out


def snippet(rec, cfg, pts, yvals):
    return '\n'.join([
        '# PYTHONPATH=/verif/harness JAX_PLATFORMS=cpu /venv/bin/python this_file.py',
        'import numpy as np, json, os, tempfile',
        'from vf.drivers import c34',
        'rec = json.loads(%r)' % json.dumps({k: rec[k] for k in ('e', 'd', 'dom', 'vars')}),
        'cfg = json.loads(%r)' % json.dumps(cfg),
        'pts = json.loads(%r)' % json.dumps(pts),
        'yvals = json.loads(%r)' % json.dumps(yvals),
        'print(c34.run_one(rec, cfg, pts, yvals, tempfile.mkdtemp()))'])


def run_one(rec, cfg, pts, yvals, workdir):
    import numpy as np
    quiet()
    path = os.path.join(workdir, 'c34one.py')
    with open(path, 'w') as f:
        f.write(HEADER + gen_source(rec, cfg, 'k'))
    mod = load_module(path, 'c34one')
    obj = getattr(mod, ('f_' if cfg['kind'] in ('efc', 'ifc') else 'C_') + 'k')
    pts = [{v: np.array(a, dtype=float) for v, a in pt.items()} for pt in pts]
    return compare(rec, cfg, obj, pts, [np.array(a, dtype=float) for a in yvals])


def nonsmooth(rec):
    return bool(tree_funcs(rec['e']) & {'maximum', 'minimum', 'abs'})


def multi_jobs(ctx, recs, quick, tw):
    """the 'multi' family: structures from FuncSig.tla, a stratified seeded selection composed with trees and judged by
    FuncSigJudge.tla; returns the jobs (index into _MCASES, cfg, seed) and statistics"""
    global _MCASES
    structs = enumerate_structures(ctx, not quick, workers=tw)
    mrnd = random.Random(ctx.seed + 17)
    n_mcs, n_mjax = (640, 200) if quick else (4000, 1600)
    by_cls = {}
    for st in structs:
        by_cls.setdefault(struct_class(st), []).append(st)
    for k in by_cls:
        mrnd.shuffle(by_cls[k])
    pool = [r for r in recs if r['vars']]
    sel = []
    for meth, budget in (('cs', n_mcs), ('jax', n_mjax)):
        # round-robin over the classes (ImplicitFuncComp twice: it is the only kind with a free argument order of states)
        keys = [k for k in sorted(by_cls) if multi_configs(by_cls[k][0], not quick)[meth]]
        keys = keys + [k for k in keys if k[0] == 'ifc']
        n, it = 0, 0
        while n < budget and it < 50 * budget:
            k = keys[it % len(keys)]
            it += 1
            st = by_cls[k][mrnd.randrange(len(by_cls[k]))]
            cfs = multi_configs(st, not quick)[meth]
            # alternate coloring on / off inside a class
            want_col = (it // len(keys)) % 2 == 1
            cfs2 = [c for c in cfs if c['col'] == want_col] or cfs
            cfg = dict(mrnd.choice(cfs2))
            case = compose_case(st, pool, mrnd, meth == 'cs')
            if case is None:
                continue
            sel.append((st, case, cfg))
            n += 1
    if not sel:
        raise MachineryError('no multi-variable case composed')
    xs = judge_cases(ctx, [c for _, c, _ in sel], workers=tw)
    _MCASES = []
    jobs = []
    for (st, case, cfg), x in zip(sel, xs):
        if x['v'] != st['v']:
            raise MachineryError('FuncSigJudge and FuncSig disagree on the layout of %s' % json.dumps(case['sc']))
        if nonsmooth_multi(x) and (cfg['col'] or cfg['kind'] in ('jexp', 'jimp')):
            cfg['npts'] = 1
        _MCASES.append({'case': case, 'x': x, 'cls': struct_class(st)})
        jobs.append((len(_MCASES) - 1, cfg, mrnd.randrange(1 << 30)))
    stat = {'structures': len(structs), 'classes': sorted({'%s/%s/%s' % m['cls'] for m in _MCASES}),
            'cs': sum(1 for j in jobs if j[1]['meth'] == 'cs'), 'jax': sum(1 for j in jobs if j[1]['meth'] == 'jax')}
    need = {('ifc', d, w) for d in ('fwd', 'rev') for w in ('states-last', 'interleaved', 'state-order-differs')}
    if not need <= {m['cls'] for m in _MCASES}:
        raise MachineryError('vacuous: the ImplicitFuncComp argument-order classes are not all covered: %s' % stat['classes'])
    return jobs, stat


def pred_ifc_state_order(scn, info):
    """ImplicitFuncComp whose state arguments appear in the signature in another order than their residuals are
    returned (= the order of the component's outputs): the states are handed over positionally"""
    cfg = scn.get('cfg', {})
    clause = str((info or {}).get('clause', ''))
    return (cfg.get('fam') == 'multi' and cfg.get('kind') == 'ifc'
            and (scn.get('layout') or {}).get('kept') is False
            and clause.startswith(('residual', 'sub-Jacobian')) and 'shape' not in clause)


def pred_single_input_jax(scn, info):
    """ExplicitFuncComp / ImplicitFuncComp, method='jax', forward direction, a function of one differentiable argument"""
    cfg = scn.get('cfg', {})
    return (cfg.get('kind') in ('efc', 'ifc') and cfg.get('meth') == 'jax'
            and 'must be tuples or lists' in str((info or {}).get('observed', '')))


def pred_ifc_jax_coloring_direction(scn, info):
    """ImplicitFuncComp, method='jax', declare_coloring: the coloring direction differs from the problem's mode"""
    cfg = scn.get('cfg', {})
    return (cfg.get('kind') == 'ifc' and cfg.get('meth') == 'jax' and cfg.get('col')
            and "'NoneType' object is not subscriptable" in str((info or {}).get('observed', '')))


def pred_jimp_coloring(scn, info):
    """JaxImplicitComponent with declare_coloring: compute_sparsity returns a bare matrix where System._compute_coloring
    unpacks (sparsity, info)"""
    cfg = scn.get('cfg', {})
    return (cfg.get('kind') == 'jimp' and bool(cfg.get('col'))
            and "'coo_matrix' object is not subscriptable" in str((info or {}).get('observed', '')))


PREDS = {'C34-funccomp-jax-single-input': pred_single_input_jax,
         'C34-implicitfunccomp-jax-coloring-direction': pred_ifc_jax_coloring_direction,
         'C34-jaximplicit-coloring': pred_jimp_coloring,
         'C34-implicitfunccomp-state-order': pred_ifc_state_order}


def replay(ctx):
    with open(ctx.replay) as f:
        stored = json.load(f)
    sc = stored['scenario']
    if _is_multi(sc.get('cfg', {})):
        x = judge_cases(ctx, [sc['case']])[0]
        fails, info = run_one_multi(sc['case'], x, sc['cfg'], sc['pts'], ctx.work)
        ctx.impl = ctx.evaluations = 1
        ctx.rule = 'replay of one stored scenario'
        ctx.sample({'replayed': ctx.replay, 'failures': [f[0] for f in fails]})
        for f in fails[:1]:
            ctx.violation(sc, c14._l(f[1]), c14._l(f[2]), f[0], snippet=snippet_multi(sc['case'], x, sc['cfg'], sc['pts']))
        return
    c14.enumerate_trees(ctx, UN_QUICK, BIN_ALL, 1, 1)
    rec = sc['rec']
    rec['vars'] = sorted(rec['vars'])
    fails, info = run_one(rec, sc['cfg'], sc['pts'], sc['yvals'], ctx.work)
    ctx.impl = ctx.evaluations = 1
    ctx.rule = 'replay of one stored scenario'
    ctx.sample({'replayed': ctx.replay, 'failures': [f[0] for f in fails]})
    for f in fails[:1]:
        ctx.violation(sc, c14._l(f[1]), c14._l(f[2]), f[0], snippet=snippet(rec, sc['cfg'], sc['pts'], sc['yvals']))


def run(ctx):
    global _RECS, _WORK
    ctx.register_predicates(PREDS)
    if getattr(ctx, 'replay', None):
        return replay(ctx)
    quick = ctx.tier == 'quick'
    nproc = int(os.environ.get('VERIF_NPROC', '0') or 0) or min(16, os.cpu_count() or 1)
    tw = int(os.environ.get('VERIF_TLC_WORKERS', '0') or 0) or None
    r, recs = c14.enumerate_trees(ctx, UN_QUICK if quick else UN_ALL, BIN_ALL, 2, 2, workers=tw)
    nexh = len(recs)
    if quick:
        rs_, sim = c14.simulate_trees(ctx, UN_ALL, BIN_ALL, 3, 4, 300, ctx.seed + 2, timeout=40, workers=min(tw or 4, 4))
    else:
        rs_, sim = c14.simulate_trees(ctx, UN_ALL, BIN_ALL, 4, 6, 6000, ctx.seed + 2, timeout=300, workers=tw or 8)
    sim = [x for x in sim if x['ops'] >= 3]
    c14.vacuity_guard(recs + sim)
    recs = recs + sim
    for rec in recs:
        rec['vars'] = sorted(rec['vars'])
    _RECS = recs
    _WORK = ctx.work
    rnd = random.Random(ctx.seed)
    # budget: complex-step scenarios are cheap (~20 ms), everything that traces with jax costs 0.3 - 1.5 s
    n_cs, n_jax = (2400, 560) if quick else (16000, 6000)
    order = list(range(len(recs)))
    rnd.shuffle(order)
    jobs = []
    cs_jobs, jax_jobs = [], []
    for i in order:
        cf = configs_for(recs[i], not quick)
        if cf['cs']:
            cs_jobs.append((i, rnd.choice(cf['cs']), rnd.randrange(1 << 30)))
        jax_jobs.append((i, rnd.choice(cf['jax']), rnd.randrange(1 << 30)))
    # prefer an even spread over the component kinds in the jax part
    by_kind = {}
    for j in jax_jobs:
        by_kind.setdefault((j[1]['kind'], j[1]['col'], j[1]['decl']), []).append(j)
    jax_sel = []
    while len(jax_sel) < n_jax and any(by_kind.values()):
        for k in sorted(by_kind):
            if by_kind[k] and len(jax_sel) < n_jax:
                jax_sel.append(by_kind[k].pop())
    jobs = cs_jobs[:n_cs] + jax_sel
    mjobs, mstat = multi_jobs(ctx, recs, quick, tw)
    for j in jobs:
        # The property quantifies over smooth functions.  Trees with maximum/minimum/abs are still replayed (away from
        # their kinks), but only at one point where the component samples a sparsity pattern at its first linearization
        # (declared coloring; jax components, which also drop sub-Jacobians that are entirely zero at that point).
        if nonsmooth(recs[j[0]]) and (j[1]['col'] or j[1]['kind'] in ('jexp', 'jimp')):
            j[1]['npts'] = 1
    jobs += mjobs
    rnd.shuffle(jobs)
    nchunks = nproc * 6
    chunks = [(k, c) for k, c in enumerate(split(jobs, nchunks)) if c]
    res = [x for rs in pmap(_worker, chunks, nproc=nproc) for x in rs]
    nrun = nskip = npoints = 0
    classes, per_kind = {}, {}
    mseen = {}
    ncut = sum(1 for o in res if 'skip' not in o and o['info'].get('single_point_underflow'))
    for o in res:
        cfg = o['cfg']
        if _is_multi(cfg):
            if 'skip' in o:
                nskip += 1
                continue
            nrun += 1
            npoints += len(o['pts'])
            mc = _MCASES[o['i']]
            case, x, cls = mc['case'], mc['x'], mc['cls']
            if o['info'].get('dir') not in (None, x['v']['dir']):
                raise MachineryError('FuncSig.Dir = %s but the component differentiates in %s mode: %s'
                                     % (x['v']['dir'], o['info']['dir'], json.dumps(case['sc'])))
            kk = 'multi:%s/%s%s' % (cfg['kind'], cfg['meth'], '/colored' if cfg['col'] else '')
            per_kind[kk] = per_kind.get(kk, 0) + 1
            ck = '%s/%s/%s' % cls
            mseen[ck] = mseen.get(ck, 0) + 1
            ctx.note_nontrivial('m/%s/%s' % (json.dumps(case, sort_keys=True), json.dumps(cfg, sort_keys=True)))
            for f in o['fails'][:1]:
                scn = {'source': o['src'], 'cfg': cfg, 'pts': o['pts'], 'point': f[3], 'case': case,
                       'structure_class': list(cls), 'layout': x['v'], 'branch': nonsmooth_multi(x)}
                inf = {'clause': f[0], 'observed': f[2]}
                cl = [k for k, pr in PREDS.items() if pr(scn, inf)]
                cl = cl[0] if cl else 'multi %s/%s %s: %s' % (cfg['kind'], cfg['meth'], ck, f[0])
                classes[cl] = classes.get(cl, 0) + 1
                ctx.violation(scn, f[1], f[2], f[0], snippet=snippet_multi(case, x, cfg, o['pts']))
            continue
        rec = recs[o['i']]
        if 'skip' in o:
            nskip += 1
            continue
        nrun += 1
        npoints += len(o['pts'])
        kk = '%s/%s%s' % (cfg['kind'], cfg['meth'], '/colored' if cfg['col'] else '')
        per_kind[kk] = per_kind.get(kk, 0) + 1
        if any(s in ('v', 'm') for s in cfg['shapes']) or cfg['col'] or cfg['kind'] in ('ifc', 'jimp'):
            ctx.note_nontrivial('%d/%s' % (o['i'], json.dumps(cfg, sort_keys=True)))
        for f in o['fails'][:1]:
            scn = {'source': o['src'], 'cfg': cfg, 'pts': o['pts'], 'yvals': o['yvals'], 'point': f[3],
                   'branch': nonsmooth(rec), 'rec': {k: rec[k] for k in ('e', 'd', 'dom', 'vars')}}
            inf = {'clause': f[0], 'observed': f[2]}
            cl = [k for k, pr in PREDS.items() if pr(scn, inf)]
            cl = cl[0] if cl else '%s/%s: %s' % (cfg['kind'], cfg['meth'], f[0])
            classes[cl] = classes.get(cl, 0) + 1
            ctx.violation(scn, f[1], f[2], f[0], snippet=snippet(rec, cfg, o['pts'], o['yvals']))
    if nrun == 0:
        raise MachineryError('no scenario was executed')
    missing = [k for k in mstat['classes'] if not mseen.get(k)]
    if missing:
        raise MachineryError('vacuous: no executed multi-variable scenario in the classes %s' % missing)
    ctx.impl = nrun
    ctx.evaluations = npoints
    ctx.exhaustive = False
    ctx.extra.update({'failure_classes': classes, 'scenarios_per_component_kind': per_kind,
                      'scenarios_skipped_infeasible_domain': nskip, 'trees_exhaustive': nexh,
                      'trees_simulated': len(sim), 'multi_structures_enumerated': mstat['structures'],
                      'multi_scenarios_per_structure_class': mseen,
                      'scenarios_cut_to_one_point_sampled_sparsity_underflow': ncut})
    shown = 0
    for o in res:
        if 'skip' not in o and _is_multi(o['cfg']) and o['cfg']['kind'] == 'ifc' and \
                _MCASES[o['i']]['cls'][2] == 'interleaved':
            ctx.sample({'cfg': o['cfg'], 'structure': _MCASES[o['i']]['case']['sc'], 'layout': _MCASES[o['i']]['x']['v'],
                        'source': o['src'], 'points': o['pts'][:1]})
            break
    for o in res:
        if 'skip' not in o and not _is_multi(o['cfg']) and shown < 2 and o['cfg']['kind'] == ['efc', 'jimp'][shown]:
            ctx.sample({'cfg': o['cfg'], 'source': o['src'], 'points': o['pts'][:1]})
            shown += 1
    if shown == 0:
        ctx.sample({'cfg': res[0]['cfg']})
    ctx.rule = ('trees of Expr.tla (TLC: all %d trees with <= 2 operator nodes over {x0, x1, 2} x %d unary functions x 7 binary '
                'x powers {2,3,-1} x negation, plus %d random -simulate trees up to depth %d) rendered as Python source; a '
                'seeded selection of %d complex-step and %d jax scenarios over ExplicitFuncComp / ImplicitFuncComp (method cs '
                '| jax, declare_coloring on/off, use_jit on/off; residual y - e(x) or e(x0, y)) and JaxExplicitComponent / '
                'JaxImplicitComponent (automatic | declared partials, declare_coloring on/off, use_jit on/off, matrix_free) x '
                'shapes {(), (1,), (3,)%s, scalar/array mixes}, two seeded points each; non-trivial = array shapes, coloring '
                'or an implicit component.  Multi-variable family: all %d structures of FuncSig.tla (1-3 inputs x 1-2 '
                'outputs/states x every argument order x return order x add_output order x named|positional returns x '
                'shapes; func API and jax classes), a seeded selection of %d (%d complex-step, %d jax) spread evenly over '
                '(component kind x partial direction fwd|rev x states last|interleaved|in another order than the '
                'residuals), each composed with Expr.tla trees bound to arguments and judged by FuncSigJudge.tla '
                '(residual trees, every block D(tree, argument), domains); all of them non-trivial'
                % (nexh, len(UN_QUICK if quick else UN_ALL), len(sim), 3 if quick else 4,
                   min(n_cs, len(cs_jobs)), len(jax_sel), ', (2,2)' if not quick else '',
                   mstat['structures'], len(mjobs), mstat['cs'], mstat['jax']))
    ctx.assumptions = [
        'primitive functions are evaluated by NumPy on the harness side (trusted base); the spec owns the tree, D and Dom',
        'method=cs scenarios exclude trees with abs / arctan2 (numpy.abs and numpy.arctan2 are not complex-step safe: the '
        'wrapped function, not the component, would be at fault)',
        'method=fd is not compared (not exact; C12 covers the approximation schemes)',
        'the property quantifies over smooth functions: trees with maximum/minimum/abs are evaluated at a single point '
        'whenever the component samples its sparsity at the first linearization (declare_coloring; every jax component, '
        'which deletes sub-Jacobians that are entirely zero at that point - repository tests rely on that pruning); the '
        'same holds for a smooth tree with a derivative entry that is zero within the comparison tolerance at the first '
        'point (saturated tanh, underflow) and nonzero at the second: only the first point is compared (counted in '
        'scenarios_cut_to_one_point_sampled_sparsity_underflow; the limitation itself is C14-coloring-stale-sparsity-'
        'underflow)',
        'points keep a margin of %.2f from kinks, ties, poles and domain boundaries; tolerance 1e-9 x the largest '
        'intermediate magnitude' % c14.MARGIN,
        'implicit components: residuals and d residual / d (inputs, state) are compared; no nonlinear / linear solve',
        'multi-variable family: all outputs of a component share one shape, an input has that shape or (1,) (elementwise '
        'trees); values and blocks are identified by NAME as the API documents it (a return value that is a simple name '
        'is matched with the output of that name / with resid=<name>, unnamed return values are matched in order with '
        'the declared outputs, a state is the argument that carries its name); FuncSig.Dir is only used to classify the '
        'coverage (it must agree with the component, otherwise the run is a machinery error)']
