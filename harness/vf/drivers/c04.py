"""C04 - connected inputs hold their source value with indices and units applied.

Spec: OMModel.tla (ConnPos: NdIndex composition of the src_indices chain; InVal: unit map) judged by OMJudge.tla.
After run_model every input of every generated model must equal  fac * source[positions(chain)] + off  evaluated by TLC on
the OBSERVED outputs; in addition every component evaluation inside the run is intercepted and the inputs the component
actually saw are judged against the outputs as they were at that moment (RunOnce / Gauss-Seidel / Newton stacks)."""
import random

import numpy as np

from .. import ombuild as ob
from .. import sysobs as so
from ..sysdriver import gen_model, run_tlc_judge
from ..tlc import MachineryError
from ..util import pmap, quiet, split

OPTS = {'storage': ['dense', 'rowscols', 'csc'], 'prom_frac': .7, 'cyc_frac': .35, 'vois': False}
OPTS_SCALED = dict(OPTS, scaling=True)     # every third model also carries solver scaling (ref/ref0/res_ref)


def observe(seed):
    from openmdao.core.analysis_error import AnalysisError
    md, ref, rng = gen_model(seed, OPTS_SCALED if seed % 3 == 0 else OPTS)
    if md is None:
        return {'skip': 'rejected'}
    # Jacobi-type solvers transfer once per iteration: the in-run statement is read "as of the last transfer" and
    # only the final state is judged for them (DESIGN.md C04)
    jac = any((sv.get('nl') or {}).get('name') == 'nlbj' for sv in md['solvers'].values())
    snaps = []
    try:
        p = ob.build(md, {'mode': 'auto'})
        p.final_setup()
        Aff, MF, Imp, Bil, MFBil = ob.classes()
        comps = {}
        for c in md['comps']:
            if c['kind'] != 'ivc':
                comps[ob.comp_path(c)] = c

        def snap(self):
            c = self.options['comp']
            if len(snaps) < 12:
                # inside a run the root vectors are in solver-scaled units (only the evaluated component's own
                # slices are physical): bring the other components' outputs back to physical units
                outs = []
                for o in md['outs']:
                    v = p.get_val(ob.out_path(md, o['id'])).copy()
                    if md.get('scaled') and o['comp'] != c['id'] and (o.get('ref') is not None or o.get('ref0') is not None):
                        def arr(x, dflt):
                            if x is None:
                                return dflt
                            if isinstance(x, dict):
                                return np.array([ob.fl(t) for t in x['arr']]).reshape(v.shape)
                            return ob.fl(x)
                        r, r0 = arr(o.get('ref'), 1.0), arr(o.get('ref0'), 0.0)
                        v = r0 + (r - r0) * v
                    outs.append(v)
                ins = {iid: self._inputs[md['ins'][iid]['name']].copy() for iid in c['ins']}
                snaps.append((c['id'], outs, ins))
        orig = {}
        if not jac:
            for cls, meth in ((Aff, 'compute'), (MF, 'compute'), (Imp, 'solve_nonlinear'), (Imp, 'apply_nonlinear')):
                f = getattr(cls, meth)
                orig[(cls, meth)] = f

                def wrapped(self, *a, _f=f, **k):
                    snap(self)
                    return _f(self, *a, **k)
                setattr(cls, meth, wrapped)
        try:
            p.run_model()
        finally:
            for (cls, meth), f in orig.items():
                setattr(cls, meth, f)
        runs = [dict(so.observe_run(p, md, ref), chk=[i['id'] + 1 for i in md['ins']], fix=True)]
        fsnaps = [{'comp': cid, 'outs': [v.ravel().tolist() for v in outs],
                   'ins': {str(k): v.ravel().tolist() for k, v in ins.items()}} for cid, outs, ins in snaps]
    except AnalysisError:
        return {'skip': 'noconv'}
    except Exception as e:
        import traceback
        return {'exc': '%s: %s' % (type(e).__name__, e), 'tb': traceback.format_exc()[-1500:], 'md': md}
    case = so.case_record(md, ref, runs, [])
    return {'case': case, 'md': md, 'nsnap': len(snaps), 'snaps': fsnaps,
            'meta': {'seed': seed, 'cyclic': bool(md.get('cycle')), 'chains': [len(i['chain']) for i in md['ins']],
                     'promoted': sum(1 for i in md['ins'] if i.get('how') == 'promote'),
                     'units': sum(1 for i in md['ins'] if i['fac'] != [1, 1] or i['off'] != [0, 1])}}


def _worker(seeds):
    quiet()
    return [observe(s) for s in seeds]


def run(ctx):
    quick = ctx.tier == 'quick'
    n = 160 if quick else 2500
    base = 7000003 * (1 + ctx.seed % 1000)
    seeds = list(range(base, base + n))
    chunks = [c for c in split(seeds, 48) if c]
    res = [r for rs in pmap(_worker, chunks) for r in rs]
    for r in res:
        if 'exc' in r:
            ctx.violation({'model': r['md']}, 'setup and run_model succeed for a legal model', r['exc'],
                          'exception from OpenMDAO: ' + r['exc'].split(':')[0], snippet=r['tb'])
    cases = [r for r in res if 'case' in r]
    if not cases:
        raise MachineryError('no cases')
    v = run_tlc_judge(ctx, [r['case'] for r in cases])
    nsn = 0
    for k, r in enumerate(cases):
        vv = v[k + 1]
        if not vv['oracle']:
            raise MachineryError('TLA+ denotation and Fraction reference disagree (seed %s)' % r['meta']['seed'])
        rv = vv['runs'][0]
        nsn += 1
        if not rv['out']:
            ctx.violation({'seed': r['meta']['seed'], 'model': r['md']}, 'converged outputs', r['case']['runs'][0]['out'],
                          'outputs after run_model differ from the denotation')
        if not rv['inp']:
            ctx.violation({'seed': r['meta']['seed'], 'model': r['md']}, 'input = fac*source[chain]+off',
                          r['case']['runs'][0]['inp'], 'input differs from its source through the index chain / units after run_model')
        # intermediate states (floats): positions and unit map from the specification, arithmetic in floating point
        import numpy as np
        for j, sn in enumerate(r['snaps']):
            nsn += 1
            for iid_s, val in sn['ins'].items():
                iid = int(iid_s)
                inp = r['md']['ins'][iid]
                pos = vv['pos'][iid]
                src = np.array(sn['outs'][inp['src']])
                fac, off = inp['fac'][0] / inp['fac'][1], inp['off'][0] / inp['off'][1]
                want = fac * src[pos] + off
                got = np.array(val)
                if got.shape != want.shape or not np.allclose(got, want, rtol=1e-12, atol=1e-12 * (1 + np.abs(want).max())):
                    ctx.violation({'seed': r['meta']['seed'], 'model': r['md'], 'snapshot': j, 'input': iid},
                                  want.tolist(), got.tolist(),
                                  'input differs from its source (index chain / units) at a component evaluation inside the run')
        m = r['meta']
        if max(m['chains'] + [0]) >= 2 or m['units'] or m['cyclic']:
            ctx.note_nontrivial(m['seed'])
    ctx.impl = nsn
    ctx.evaluations = nsn
    ctx.extra['models'] = len(cases)
    ctx.extra['in_run_snapshots'] = nsn - len(cases)
    for r in cases[:2]:
        ctx.sample({'meta': r['meta'], 'inputs': [{'chain': i['chain'], 'how': i.get('how'), 'fac': i['fac'], 'off': i['off']}
                                                   for i in r['md']['ins']][:3]})
    ctx.rule = ('generated hierarchies (explicit connect with src_indices, promotion chains with src_indices/src_shape at up to 3 levels, '
                'flat and non-flat forms, negative/repeated/slice/tuple/ellipsis indices, 7 unit pairs incl. offsets, feedback cycles); '
                'TLC judges every input against the observed outputs after run_model and at intercepted component evaluations; '
                'non-trivial = models with a chain of >= 2 index links, a unit conversion or a cycle')
    ctx.assumptions = ['continuous variables only (discrete variables are outside the generator)',
                       'NonlinearBlockJac: only the final state is judged (inputs are as of the last transfer by design)']
