"""C03 - simultaneous-derivative coloring reconstructs every Jacobian entry.

Spec: spec/mech/Coloring.tla (patterns, colorings, generic formal-sum values, Valid / Partition / NoWorse) and
spec/mech/ColoringJudge.tla (judges colorings exported from the real code).

(0) TLC runs the self-check of Coloring.tla: every 2x2 pattern against every candidate coloring (laws of the
    specification, and Valid is neither always true nor always false).
(a) V: every boolean pattern of the tier's shapes (plus seeded random ones) x {fwd, rev, auto-direct, auto-substitution}
    goes through the real openmdao.utils.coloring._compute_coloring; the Coloring object is projected to
    (fg, fnz, rg, rnz, subs) and TLC evaluates Valid / Partition / NoWorse / Fallback on it with generic values.
(b) R: the same patterns filled with distinct primes; the compressed products (J.seed per fwd color, seed^T.J per rev
    color, seeds from the real tangent_iter / color_iter) are pushed through the real recovery code
    (_TotalJacInfo.simul_coloring_jac_setter + Coloring._apply_subtractions; Coloring._expand_jac and colored_jac_iter
    for single-direction colorings) and compared entrywise, exactly.
(c) generated models: colored vs uncolored compute_totals (ScipyOptimizeDriver.declare_coloring, modes fwd/rev/auto,
    direct/substitution, with and without driver scaling) and colored vs uncolored FD/CS partials
    (Component.declare_coloring)."""
import collections
import json
import random

from ..tlc import MachineryError
from ..util import pmap, quiet, split

NPROC = 8          # pool processes
WORKERS = 8        # TLC workers
CONFIGS = [('fwd', True), ('rev', True), ('auto', True), ('auto', False)]
KNOWN_SUBS_SCALING = 'C03-subtractions-after-scaling'
PRIMES = None


def _primes(n):
    global PRIMES
    if PRIMES is None or len(PRIMES) < n:
        ps, k = [], 2
        while len(ps) < max(n, 200):
            if all(k % p for p in ps if p * p <= k):
                ps.append(k)
            k += 1
        PRIMES = ps
    return PRIMES[:n]


# ------------------------------------------------------------------------------------------- pattern generation
def _shapes(tier):
    if tier == 'quick':
        return [(r, c) for r in range(1, 4) for c in range(1, 4)] + [(2, 4), (4, 2)]
    return [(r, c) for r in range(1, 5) for c in range(1, 5)]


def _cells_of_bits(nr, nc, bits):
    return [(i // nc, i % nc) for i in range(nr * nc) if (bits >> i) & 1]


def _random_patterns(rnd, n, lo, hi):
    """seeded random and structured patterns (arrow heads, bands, blocks with dense rows/columns) - the structured
    ones are the ones on which the bidirectional methods pay off"""
    out = []
    for k in range(n):
        nr, nc = rnd.randint(lo, hi), rnd.randint(lo, hi)
        kind = k % 5
        cells = set()
        if kind in (0, 1):
            dens = rnd.uniform(.08, .6)
            cells = {(r, c) for r in range(nr) for c in range(nc) if rnd.random() < dens}
        elif kind == 2:          # arrow head: diagonal plus some dense rows and columns
            cells = {(i, i) for i in range(min(nr, nc))}
            for r in rnd.sample(range(nr), rnd.randint(1, 2)):
                cells |= {(r, c) for c in range(nc) if rnd.random() < .9}
            for c in rnd.sample(range(nc), rnd.randint(1, 2)):
                cells |= {(r, c) for r in range(nr) if rnd.random() < .9}
        elif kind == 3:          # band plus random points
            bw = rnd.randint(0, 2)
            cells = {(r, c) for r in range(nr) for c in range(nc) if abs(r - c) <= bw}
            cells |= {(rnd.randrange(nr), rnd.randrange(nc)) for _ in range(rnd.randint(0, 6))}
        else:                    # blocks on the diagonal, one dense row, one dense column, random points
            r0 = c0 = 0
            while r0 < nr and c0 < nc:
                h, w = rnd.randint(1, 3), rnd.randint(1, 3)
                cells |= {(r, c) for r in range(r0, min(nr, r0 + h)) for c in range(c0, min(nc, c0 + w))}
                r0, c0 = r0 + h, c0 + w
            rr, cc = rnd.randrange(nr), rnd.randrange(nc)
            cells |= {(rr, c) for c in range(nc) if rnd.random() < .8}
            cells |= {(r, cc) for r in range(nr) if rnd.random() < .8}
            cells |= {(rnd.randrange(nr), rnd.randrange(nc)) for _ in range(rnd.randint(0, 4))}
        out.append((nr, nc, sorted(cells)))
    return out


def gen_patterns(tier, seed):
    items = []
    for nr, nc in _shapes(tier):
        for bits in range(1 << (nr * nc)):
            items.append((nr, nc, _cells_of_bits(nr, nc, bits)))
    n_exh = len(items)
    rnd = random.Random(1000003 * seed + 3)
    if tier == 'quick':
        items += _random_patterns(rnd, 200, 4, 8)
    else:
        items += _random_patterns(rnd, 1500, 4, 8) + _random_patterns(rnd, 2500, 8, 12)
    return items, n_exh


# ------------------------------------------------------------------------------------------- projection, R direction
def project(col, nr, nc):
    """Coloring object -> the record of Coloring.tla (1-based)"""
    def groups(t):
        return [[int(i) + 1 for i in g] for g in t[0]] if t is not None else []

    def nzs(t, n):
        if t is None:
            return [[] for _ in range(n)]
        if len(t[1]) != n:
            raise ValueError('nonzero map has %d entries, expected %d' % (len(t[1]), n))
        return [[int(i) + 1 for i in x] if x is not None else [] for x in t[1]]
    subs = col._subtractions
    if not subs:
        subs = []
    elif isinstance(subs, dict):
        raise ValueError('non-empty _subtractions is a dict, expected an ordered list')
    return {'fg': groups(col._fwd), 'fnz': nzs(col._fwd, nc), 'rg': groups(col._rev), 'rnz': nzs(col._rev, nr),
            'subs': [{'pos': [int(p[0]) + 1, int(p[1]) + 1], 'sub': [[int(a) + 1, int(b) + 1] for a, b in q]}
                     for p, q in subs]}


class _Vec:
    def __init__(self, a):
        self.a = a

    def asarray(self, copy=False):
        return self.a


def recover_like_total_jac(col, M):
    """The colored part of _TotalJacInfo.compute_totals on matrix M: for every mode of the coloring and every color, the
    linear solve is replaced by the exact product with M; scattering into J is done by the real
    _TotalJacInfo.simul_coloring_jac_setter, followed by the real Coloring._apply_subtractions."""
    import types
    import numpy as np
    from openmdao.core.total_jac import _TotalJacInfo
    nr, nc = M.shape
    J = np.zeros((nr, nc))
    fake = types.SimpleNamespace(simul_coloring=col, comm=types.SimpleNamespace(size=1), J=J, jac_scratch=None,
                                 sol2jac_map={'fwd': (np.arange(nr), np.arange(nr), None),
                                              'rev': (np.arange(nc), np.arange(nc), None)},
                                 output_vec={})
    Mf = M.astype(float)
    for mode in col.modes():
        fwd = mode == 'fwd'
        for ilist, (arr, nzl, _) in zip(list(col.color_iter(mode)), col.tangent_iter(mode)):
            if list(ilist) != list(nzl) or set(np.nonzero(arr)[0]) != set(int(i) for i in ilist) or \
                    not np.all((arr == 0) | (arr == 1)):
                raise AssertionError('tangent_iter seed is not the indicator of the color group %r' % (ilist,))
            fake.output_vec[mode] = _Vec(Mf @ arr if fwd else arr @ Mf)
            _TotalJacInfo.simul_coloring_jac_setter(fake, ilist, mode, None)
    if col._subtractions:
        col._apply_subtractions(J)
    return J


def recover_single_direction(col, M, mode):
    """compressed Jacobian of a one-direction coloring through the real _expand_jac and colored_jac_iter"""
    import numpy as np
    nr, nc = M.shape
    Mf = M.astype(float)
    prods = [(Mf @ arr if mode == 'fwd' else arr @ Mf).copy() for arr, _, _ in col.tangent_iter(mode)]
    if mode == 'fwd':
        comp = np.array(prods).T.reshape(nr, len(prods))
    else:
        comp = np.array(prods).reshape(len(prods), nc)
    J1 = np.asarray(col._expand_jac(comp, mode).toarray())
    J2 = np.zeros((nr, nc))
    for vals, nzpart, idx in col.colored_jac_iter(comp, mode):
        if mode == 'fwd':
            J2[nzpart, idx] = vals
        else:
            J2[idx, nzpart] = vals
    return J1, J2


def run_pattern(nr, nc, cells, alt):
    """all four configurations of one pattern on the real code: TLC cases + R-direction results"""
    import numpy as np
    from scipy.sparse import coo_matrix
    from openmdao.utils.coloring import _compute_coloring
    P = np.zeros((nr, nc), dtype=bool)
    for r, c in cells:
        P[r, c] = True
    M = np.zeros((nr, nc), dtype=np.int64)
    for (r, c), p in zip(cells, _primes(len(cells))):
        M[r, c] = p
    out = []
    cols = {}
    for mode, direct in CONFIGS:
        rec = {'nr': nr, 'nc': nc, 'cells': [list(x) for x in cells], 'mode': mode, 'direct': direct}
        try:
            # the function accepts a dense boolean array or a sparse matrix: alternate between them
            Jin = P.copy() if alt % 2 == 0 else coo_matrix(P)
            col = _compute_coloring(Jin, mode, direct=direct)
            rec['K'] = project(col, nr, nc)
        except Exception as e:
            rec['err'] = '_compute_coloring raised %s: %s' % (type(e).__name__, e)
            out.append(rec)
            continue
        cols[(mode, direct)] = col
        rec['meta'] = {'bidirectional': bool(col._meta.get('bidirectional')), 'fallback': bool(col._meta.get('fallback')),
                       'modes': list(col.modes()), 'total_solves': int(col.total_solves())}
        rbad = []
        try:
            if not np.array_equal(col.get_dense_sparsity().astype(bool), P):
                rbad.append('get_dense_sparsity differs from the pattern')
            J = recover_like_total_jac(col, M)
            if not np.array_equal(J, M):
                rbad.append({'path': 'simul_coloring_jac_setter+_apply_subtractions', 'recovered': J.tolist()})
            md = col.modes()
            if len(md) == 1:
                J1, J2 = recover_single_direction(col, M, md[0])
                if not np.array_equal(J1, M):
                    rbad.append({'path': '_expand_jac', 'recovered': J1.tolist()})
                if not np.array_equal(J2, M):
                    rbad.append({'path': 'colored_jac_iter', 'recovered': J2.tolist()})
                rec['expanded'] = True
        except Exception as e:
            rbad.append('recovery raised %s: %s' % (type(e).__name__, e))
        rec['rbad'] = rbad
        rec['M'] = M.tolist() if rbad else None
        out.append(rec)
    fs = cols[('fwd', True)].total_solves() if ('fwd', True) in cols else -1
    rs = cols[('rev', True)].total_solves() if ('rev', True) in cols else -1
    for rec in out:
        rec['fs'], rec['rs'] = int(fs), int(rs)
    return out


def _pattern_worker(items):
    quiet()
    res = []
    for k, (nr, nc, cells) in items:
        res.append((k, run_pattern(nr, nc, cells, k)))
    return res


def tlc_case(rec, modes):
    return {'nr': rec['nr'], 'nc': rec['nc'], 'P': [[r + 1, c + 1] for r, c in rec['cells']], 'modes': modes,
            'K': rec['K'], 'fs': rec['fs'], 'rs': rec['rs']}


def judge(ctx, cases, tag):
    path = ctx.write_json('c03_%s.json' % tag, cases)
    cfg = ctx.write_cfg('ColoringJudge_%s.cfg' % tag,
                        'CONSTANTS\n  SCR = 1\n  SCC = 1\n  SCLen = 0\nINIT JInit\nNEXT JNext\nINVARIANT JExport\n')
    r = ctx.tlc_check('mech/ColoringJudge', cfg, env={'C03_CASES': path}, workers=WORKERS, timeout=3000, heap='10g',
                      coverage=False)
    v = {e['tid']: e['v'] for e in r.exports('EXP')}
    if len(v) != len(cases) or r.distinct != 2 * len(cases):
        raise MachineryError('ColoringJudge returned %d verdicts for %d cases (%d states):\n%s'
                             % (len(v), len(cases), r.distinct, r.tail()))
    return [v[i + 1] for i in range(len(cases))]


def self_check(ctx):
    """Coloring.tla on itself: all patterns of a small shape x all candidate colorings (laws + non-vacuity of Valid)"""
    bounds = [(2, 2, 2)] if ctx.tier == 'quick' else [(2, 2, 3), (2, 3, 2), (3, 2, 2)]
    out = {}
    for nr, nc, ln in bounds:
        cfg = ctx.write_cfg('Coloring_selfcheck_%d%d%d.cfg' % (nr, nc, ln), '''CONSTANTS
  SCR = %d
  SCC = %d
  SCLen = %d
INIT Init
NEXT Next
INVARIANT ValidIsStructural
INVARIANT ValidCovers
INVARIANT FwdLowerBound
''' % (nr, nc, ln))
        r = ctx.tlc_check('mech/Coloring', cfg, workers=WORKERS, timeout=3000, heap='8g')
        cov = {k: v[1] for k, v in r.coverage().items()}
        ctx.require_actions(['Pick', 'SeenValid', 'SeenInvalid'])
        if not (cov.get('SeenValid', 0) > 0 and cov.get('SeenInvalid', 0) > 0):
            raise MachineryError('self-check of Coloring.tla is vacuous: %s' % cov)
        out['%dx%d_upto%dcolors' % (nr, nc, ln)] = {'candidates': cov.get('Pick', 0), 'valid': cov.get('SeenValid', 0),
                                                     'invalid': cov.get('SeenInvalid', 0)}
    return out


# ------------------------------------------------------------------------------------------- (c) generated models
def _model_specs(rnd, n):
    """small models: one sparse affine component y = A x (integer A on a pattern), inputs split into several design
    variables and outputs into several constraints, each with its own scaler; optionally followed by a second sparse
    component z = B y so that the total Jacobian is a product"""
    specs = []
    fixed = [
        # the 4x4 pattern of Coloring.tla (substitution needs ordered subtraction steps), scalar variables
        (4, 4, [(0, 0), (0, 2), (0, 3), (1, 0), (1, 1), (2, 0), (3, 1), (3, 2), (3, 3)], [1, 1, 1, 1], [1, 1, 1, 1]),
    ]
    for nr, nc, cells, isz, osz in fixed:
        specs.append({'nr': nr, 'nc': nc, 'cells': cells, 'isz': isz, 'osz': osz, 'chain': False})
    pats = _random_patterns(rnd, 5 * n, 5, 10)
    # structured patterns first (arrow heads and blocks make the bidirectional coloring win)
    pats = [p for k, p in enumerate(pats) if k % 5 in (2, 4)] + [p for k, p in enumerate(pats) if k % 5 not in (2, 4)]
    for nr, nc, cells in pats:
        if len(specs) >= n:
            break
        if len(cells) < 3:
            continue

        def parts(total):
            sizes = []
            while total > 0:
                s = min(total, rnd.randint(1, 4))
                sizes.append(s)
                total -= s
            return sizes
        specs.append({'nr': nr, 'nc': nc, 'cells': cells, 'isz': parts(nc), 'osz': parts(nr),
                      'chain': len(specs) % 3 == 2})
    for k, s in enumerate(specs):
        s['id'] = k
        s['vals'] = [rnd.choice([-5, -3, -2, -1, 1, 2, 3, 4, 7]) for _ in s['cells']]
        s['iscale'] = [rnd.choice([1, 2, 4, .5, 3]) for _ in s['isz']]
        s['oref'] = [rnd.choice([1, 2, 5, .25, 3]) for _ in s['osz']]
        if s['chain']:
            # B: permuted diagonal plus a few extra entries
            perm = list(range(s['nr']))
            rnd.shuffle(perm)
            bc = {(i, perm[i]) for i in range(s['nr'])} | {(rnd.randrange(s['nr']), rnd.randrange(s['nr']))
                                                          for _ in range(2)}
            s['bcells'] = sorted(bc)
            s['bvals'] = [rnd.choice([-2, -1, 1, 2, 3]) for _ in s['bcells']]
    return specs


def _offsets(sizes):
    offs, o = [], 0
    for s in sizes:
        offs.append(o)
        o += s
    return offs


def _blocks(cells, vals, rsz, csz):
    """split a sparse matrix into (row variable, column variable) blocks: {(i, j): (rows, cols, vals)} local indices"""
    ro, co = _offsets(rsz), _offsets(csz)

    def find(offs, sizes, x):
        for k, (o, s) in enumerate(zip(offs, sizes)):
            if o <= x < o + s:
                return k, x - o
    blocks = {}
    for (r, c), v in zip(cells, vals):
        i, lr = find(ro, rsz, r)
        j, lc = find(co, csz, c)
        b = blocks.setdefault((i, j), ([], [], []))
        b[0].append(lr)
        b[1].append(lc)
        b[2].append(float(v))
    return blocks


def _sparse_comp_class():
    import numpy as np
    import openmdao.api as om

    class SparseAffine(om.ExplicitComponent):
        """outputs o_i = SUM_j A_ij x_j, partials declared per block with rows/cols"""
        def initialize(self):
            self.options.declare('blocks')
            self.options.declare('isz')
            self.options.declare('osz')
            self.options.declare('iname', default='x')
            self.options.declare('oname', default='y')

        def setup(self):
            o = self.options
            for j, s in enumerate(o['isz']):
                self.add_input('%s%d' % (o['iname'], j), np.ones(s))
            for i, s in enumerate(o['osz']):
                self.add_output('%s%d' % (o['oname'], i), np.ones(s))
            for (i, j), (rows, cols, vals) in o['blocks'].items():
                self.declare_partials('%s%d' % (o['oname'], i), '%s%d' % (o['iname'], j), rows=rows, cols=cols,
                                      val=np.array(vals))

        def compute(self, inputs, outputs):
            o = self.options
            for i in range(len(o['osz'])):
                outputs['%s%d' % (o['oname'], i)] = 0.
            for (i, j), (rows, cols, vals) in o['blocks'].items():
                np.add.at(outputs['%s%d' % (o['oname'], i)], rows,
                          np.array(vals) * inputs['%s%d' % (o['iname'], j)][cols])

        def compute_partials(self, inputs, partials):
            pass
    return SparseAffine


def _build_totals_problem(spec, mode, colored, direct):
    import openmdao.api as om
    Comp = _sparse_comp_class()
    p = om.Problem(name='c03_m%d_%s_%s_%s' % (spec['id'], mode, int(colored), int(direct)))
    m = p.model
    m.add_subsystem('a', Comp(blocks=_blocks(spec['cells'], spec['vals'], spec['osz'], spec['isz']),
                              isz=spec['isz'], osz=spec['osz']))
    last, oname = 'a', 'y'
    if spec['chain']:
        m.add_subsystem('b', Comp(blocks=_blocks(spec['bcells'], spec['bvals'], spec['osz'], spec['osz']),
                                  isz=spec['osz'], osz=spec['osz'], iname='y', oname='z'))
        for i in range(len(spec['osz'])):
            m.connect('a.y%d' % i, 'b.y%d' % i)
        last, oname = 'b', 'z'
    for j, sc in enumerate(spec['iscale']):
        m.add_design_var('a.x%d' % j, scaler=float(sc))
    for i, rf in enumerate(spec['oref']):
        m.add_constraint('%s.%s%d' % (last, oname, i), upper=1000., ref=float(rf))
    p.driver = om.ScipyOptimizeDriver(optimizer='SLSQP')
    if colored:
        p.driver.declare_coloring(direct=direct, show_summary=False, min_improve_pct=0.)
    p.setup(mode=mode)
    p.run_model()
    return p


def run_totals_model(spec):
    """colored vs uncolored compute_totals; returns comparison rows"""
    import numpy as np
    rows = []
    for mode in ('fwd', 'rev', 'auto'):
        base = {}
        try:
            p0 = _build_totals_problem(spec, mode, False, True)
            for ds in (False, True):
                base[ds] = np.array(p0.compute_totals(return_format='array', driver_scaling=ds))
        except Exception as e:
            rows.append({'mode': mode, 'skip': 'uncolored run raised %s: %s' % (type(e).__name__, e)})
            continue
        for direct in ((True, False) if mode == 'auto' else (True,)):
            row0 = {'kind': 'model-totals', 'model': spec['id'], 'mode': mode, 'direct': direct}
            try:
                p1 = _build_totals_problem(spec, mode, True, direct)
                for ds in (False, True):
                    J1 = np.array(p1.compute_totals(return_format='array', driver_scaling=ds))
                    col = p1.driver._coloring_info.coloring
                    row = dict(row0, driver_scaling=ds, colored=col is not None,
                               solves=int(col.total_solves()) if col is not None else None,
                               uncolored_solves=int(min(base[ds].shape) if mode == 'auto' else
                                                    base[ds].shape[1 if mode == 'fwd' else 0]),
                               subs=bool(col is not None and col._subtractions),
                               bidirectional=bool(col is not None and col._meta.get('bidirectional')))
                    J0 = base[ds]
                    err = float(np.max(np.abs(J1 - J0) / (1. + np.abs(J0)))) if J0.size else 0.
                    row['err'] = err
                    if not err <= 1e-9:
                        row['J_uncolored'] = J0.tolist()
                        row['J_colored'] = J1.tolist()
                    rows.append(row)
                # the driver's own variables asked for explicitly with the design variables in reversed order: the same
                # numbers, columns permuted (the coloring, which was computed for the driver's order, must not be misapplied)
                dvs = ['a.x%d' % j for j in range(len(spec['iscale']))]
                ofs = ['%s%d' % ('b.z' if spec['chain'] else 'a.y', i) for i in range(len(spec['oref']))]
                if len(dvs) > 1:
                    Jp = np.array(p1.compute_totals(of=ofs, wrt=dvs[::-1], return_format='array', driver_scaling=False))
                    co = np.concatenate([[0], np.cumsum(spec['isz'])]).astype(int)
                    blocks = [base[False][:, co[j]:co[j + 1]] for j in range(len(dvs))]
                    J0 = np.hstack(blocks[::-1])
                    err = float(np.max(np.abs(Jp - J0) / (1. + np.abs(J0)))) if J0.size and Jp.shape == J0.shape else 1.
                    row = dict(row0, driver_scaling=False, colored=True, permuted_wrt=True, err=err, solves=None, uncolored_solves=None,
                               subs=False, bidirectional=False)
                    if not err <= 1e-9:
                        row['J_uncolored'] = J0.tolist()
                        row['J_colored'] = Jp.tolist()
                    rows.append(row)
            except Exception as e:
                rows.append(dict(row0, driver_scaling=None, raised='%s: %s' % (type(e).__name__, e)))
    return rows


def _fd_comp_class():
    import numpy as np
    import openmdao.api as om

    class SparseQuad(om.ExplicitComponent):
        """y = A x + Q x^2 (integer A, Q on the pattern): with integer x and a power-of-two step the difference
        quotients are computed without round-off, so colored and uncolored approximations must agree exactly"""
        def initialize(self):
            self.options.declare('A')
            self.options.declare('Q')
            self.options.declare('method')
            self.options.declare('colored')

        def setup(self):
            A = self.options['A']
            self.add_input('x', np.arange(1., A.shape[1] + 1.))
            self.add_output('y', np.zeros(A.shape[0]))
            kw = {'step': 2. ** -10} if self.options['method'] == 'fd' else {}
            self.declare_partials('y', 'x', method=self.options['method'], **kw)
            if self.options['colored']:
                self.declare_coloring(wrt='*', method=self.options['method'], num_full_jacs=2, show_summary=False,
                                      min_improve_pct=0., **kw)

        def compute(self, inputs, outputs):
            x = inputs['x']
            outputs['y'] = self.options['A'].dot(x) + self.options['Q'].dot(x * x)
    return SparseQuad


def run_partials_model(spec):
    import numpy as np
    import openmdao.api as om
    Comp = _fd_comp_class()
    A = np.zeros((spec['nr'], spec['nc']))
    Q = np.zeros((spec['nr'], spec['nc']))
    for k, ((r, c), v) in enumerate(zip(spec['cells'], spec['vals'])):
        A[r, c] = v
        Q[r, c] = (k % 3) - 1
    rows = []
    for method in ('fd', 'cs'):
        res = {}
        row = {'kind': 'model-partials', 'model': spec['id'], 'method': method}
        try:
            for colored in (False, True):
                p = om.Problem(name='c03_p%d_%s_%d' % (spec['id'], method, int(colored)))
                p.model.add_subsystem('c', Comp(A=A, Q=Q, method=method, colored=colored))
                p.setup(force_alloc_complex=True)
                p.run_model()
                J = np.array(p.compute_totals(of=['c.y'], wrt=['c.x'], return_format='array'))
                col = p.model.c._coloring_info.coloring if colored else None
                res[colored] = (J, col)
            J0, J1 = res[False][0], res[True][0]
            col = res[True][1]
            exact = A + 2 * Q * np.arange(1., spec['nc'] + 1.)[None, :] + (Q * 2. ** -10 if method == 'fd' else 0.)
            row.update(colored=col is not None, solves=int(col.total_solves()) if col is not None else None,
                       uncolored_solves=spec['nc'],
                       err=float(np.max(np.abs(J1 - J0) / (1. + np.abs(J0)))),
                       err_exact=float(np.max(np.abs(J0 - exact) / (1. + np.abs(exact)))))
            if not row['err'] <= 1e-9:
                row['J_uncolored'] = J0.tolist()
                row['J_colored'] = J1.tolist()
        except Exception as e:
            row['raised'] = '%s: %s' % (type(e).__name__, e)
        rows.append(row)
    return rows


def _model_worker(specs):
    quiet()
    out = []
    for s in specs:
        out.append((s['id'], run_totals_model(s), run_partials_model(s)))
    return out


def _task_worker(task):
    kind, chunk = task
    return _model_worker(chunk) if kind == 'model' else _pattern_worker(chunk)


# ------------------------------------------------------------------------------------------- findings
def _is_subs_after_scaling(scenario, info):
    """colored totals differ from uncolored ones exactly when subtraction steps exist and driver scaling is applied:
    _apply_subtractions runs on the already scaled J (total_jac.py, end of compute_totals)"""
    return scenario.get('kind') == 'model-totals' and scenario.get('direct') is False and \
        scenario.get('driver_scaling') is True and scenario.get('subs') is True


# ------------------------------------------------------------------------------------------- run
def _replay(ctx):
    with open(ctx.replay) as f:
        rec = json.load(f)
    sc = rec['scenario']
    ctx.register_predicates({KNOWN_SUBS_SCALING: _is_subs_after_scaling})
    if sc.get('kind', 'pattern') != 'pattern':
        quiet()
        spec = sc['spec']
        spec['cells'] = [tuple(x) for x in spec['cells']]
        if spec.get('bcells'):
            spec['bcells'] = [tuple(x) for x in spec['bcells']]
        trow = run_totals_model(spec) if sc['kind'] == 'model-totals' else []
        prow = run_partials_model(spec) if sc['kind'] == 'model-partials' else []
        cnt = _process_models(ctx, [spec], [[(spec['id'], trow, prow)]], only=sc)
        # TLC judges the coloring of the component's own pattern for the same mode and method (for a model without the
        # second component this is the total Jacobian's pattern): tells a wrong coloring from a wrong use of a right one
        mode, direct = (sc['mode'], sc['direct']) if sc['kind'] == 'model-totals' else ('fwd', True)
        recs = [r for r in run_pattern(spec['nr'], spec['nc'], spec['cells'], 0)
                if r['mode'] == mode and r['direct'] == direct]
        _judge_records(ctx, recs, 'replay', [0] * len(recs))
        ctx.impl = cnt['tot'] + cnt['par']
        ctx.rule = 'replay of one stored model scenario (colored vs uncolored on the real code)'
        ctx.sample({'replayed': ctx.replay, 'comparisons': ctx.impl, 'violations': len(ctx.violations)})
        return
    quiet()
    recs = run_pattern(sc['nr'], sc['nc'], [tuple(x) for x in sc['cells']], sc.get('alt', 0))
    recs = [r for r in recs if r['mode'] == sc['mode'] and r['direct'] == sc['direct']]
    _judge_records(ctx, recs, 'replay', [sc.get('alt', 0)] * len(recs))
    ctx.rule = 'replay of one stored scenario'
    ctx.sample({'replayed': ctx.replay, 'violations': len(ctx.violations)})


def _scenario(rec, alt):
    return {'kind': 'pattern', 'nr': rec['nr'], 'nc': rec['nc'], 'cells': rec['cells'], 'mode': rec['mode'],
            'direct': rec['direct'], 'alt': alt % 2}


def _judge_records(ctx, recs, tag, alts, batch=40000):
    """TLC verdicts for all records that produced a coloring; reports violations; returns verdict list (None = error)"""
    # records of the same pattern with the same coloring (mode auto falling back to fwd or rev) share one TLC case
    groups = collections.OrderedDict()
    for i, r in enumerate(recs):
        if 'K' in r:
            key = (r['nr'], r['nc'], json.dumps(r['cells']), json.dumps(r['K'], sort_keys=True))
            groups.setdefault(key, []).append(i)
    glist = list(groups.values())
    verdicts = [None] * len(recs)
    for b in range(0, len(glist), batch):
        part = glist[b:b + batch]
        vs = judge(ctx, [tlc_case(recs[g[0]], [recs[i]['mode'] for i in g]) for g in part], '%s_%d' % (tag, b // batch))
        for g, v in zip(part, vs):
            for j, i in enumerate(g):
                verdicts[i] = {'wf': v['wf'], 'valid': v['valid'], 'solves': v['solves'], 'needsubs': v['needsubs'],
                               'partition': v['partition'][j], 'noworse': v['noworse'][j], 'fallback': v['fallback'][j]}
    ctx.extra['tlc_cases'] = ctx.extra.get('tlc_cases', 0) + len(glist)
    snippet = ('import numpy as np; from openmdao.utils.coloring import _compute_coloring; P = np.zeros((nr, nc), bool); '
               'P[tuple(zip(*cells))] = True; c = _compute_coloring(P, mode, direct=direct); print(c._fwd, c._rev, '
               'c._subtractions)   # ./check C03 --replay <this file>')
    for i, rec in enumerate(recs):
        sc = _scenario(rec, alts[i])
        if 'err' in rec:
            ctx.violation(sc, 'a coloring', rec['err'], 'no coloring is produced for the pattern', snippet=snippet)
            continue
        v = verdicts[i]
        want = {'wf': True, 'valid': True, 'partition': True, 'noworse': True, 'fallback': True}
        got = {k: v[k] for k in want}
        if got != want:
            bad = [k for k in want if not got[k]]
            clause = {'wf': 'the coloring refers to rows/columns outside the matrix',
                      'valid': 'Valid: some entry is not recovered exactly from the compressed products',
                      'partition': 'Partition: a column (row) is in two colors or a nonzero is not covered',
                      'noworse': 'NoWorse: more solves than the uncolored computation',
                      'fallback': 'Fallback: mode auto kept a coloring that needs more solves than a single direction'}
            ctx.violation(dict(sc, coloring=rec['K'], fs=rec['fs'], rs=rec['rs']), want, got,
                          '; '.join(clause[k] for k in bad), snippet=snippet)
        if v['solves'] != rec['meta']['total_solves']:
            raise MachineryError('projection lost colors: spec counts %s, total_solves() = %s for %r'
                                 % (v['solves'], rec['meta']['total_solves'], sc))
        if rec['rbad']:
            ctx.violation(dict(sc, coloring=rec['K'], matrix=rec['M']), 'recovered matrix == matrix (exact integers)',
                          rec['rbad'], 'R: the real expansion code does not return the matrix it compressed',
                          snippet=snippet)
        elif not (v['valid'] and v['wf']):
            # the spec rejects the coloring but the real recovery reproduced the prime matrix: the two directions
            # must agree (generic validity implies validity for this matrix, and distinct primes make the converse
            # hold unless coefficients cancel) - report for inspection
            ctx.extra.setdefault('spec_rejects_but_R_ok', 0)
            ctx.extra['spec_rejects_but_R_ok'] += 1
    return verdicts


def _process_models(ctx, specs, mres, only=None):
    """compare the rows of the model workers, report violations; only: replay filter on scenario fields"""
    n_tot = n_tot_col = n_tot_subs = n_par = n_par_col = 0
    skipped = []
    by_id = {s['id']: s for s in specs}

    def wanted(sc):
        return only is None or all(sc.get(k) == only.get(k) for k in ('kind', 'mode', 'direct', 'driver_scaling', 'method')
                                   if k in only)
    for chunk in mres:
        for mid, trow, prow in chunk:
            spec = by_id[mid]
            for row in trow:
                if 'skip' in row:
                    skipped.append(row['skip'])
                    continue
                sc = {k: row.get(k) for k in ('kind', 'model', 'mode', 'direct', 'driver_scaling', 'subs',
                                              'bidirectional', 'solves')}
                sc['spec'] = spec
                if not wanted(sc):
                    continue
                if 'raised' in row:
                    ctx.violation(sc, 'colored compute_totals returns', row['raised'],
                                  'colored compute_totals raised where the uncolored one did not')
                    continue
                n_tot += 1
                n_tot_col += bool(row['colored'])
                n_tot_subs += bool(row['subs'])
                if row.get('permuted_wrt'):
                    ctx.note_nontrivial(('totals-permuted', mid, row['mode'], row['direct']))
                elif row['colored'] and row['solves'] < row['uncolored_solves']:
                    ctx.note_nontrivial(('totals', mid, row['mode'], row['direct'], row['driver_scaling']))
                if not row['err'] <= 1e-9:
                    ctx.violation(sc, row['J_uncolored'], row['J_colored'],
                                  ('colored total derivatives for a permuted wrt list differ from uncolored ones (max rel. diff %.3g)' if row.get('permuted_wrt') else
                                   'colored total derivatives differ from uncolored ones (max rel. diff %.3g)') % row['err'],
                                  snippet='openmdao: ScipyOptimizeDriver.declare_coloring(direct=%s); setup(mode=%r); '
                                          'compute_totals(driver_scaling=%s) vs the same without declare_coloring; '
                                          './check C03 --replay <this file>'
                                          % (row['direct'], row['mode'], row['driver_scaling']))
            for row in prow:
                sc = {'kind': 'model-partials', 'model': mid, 'method': row['method'], 'spec': spec}
                if not wanted(sc):
                    continue
                if 'raised' in row:
                    ctx.violation(sc, 'colored approximation runs', row['raised'],
                                  'partial-derivative coloring raised')
                    continue
                n_par += 1
                n_par_col += bool(row['colored'])
                if row['colored'] and row['solves'] < row['uncolored_solves']:
                    ctx.note_nontrivial(('partials', mid, row['method']))
                if not row['colored']:
                    raise MachineryError('declare_coloring on the component produced no coloring (model %d)' % mid)
                if not row['err_exact'] <= 1e-9:
                    raise MachineryError('uncolored %s partials are not the exact quotient (model %d, err %g)'
                                         % (row['method'], mid, row['err_exact']))
                if not row['err'] <= 1e-9:
                    ctx.violation(sc, row['J_uncolored'], row['J_colored'],
                                  'colored %s partial derivatives differ from uncolored ones' % row['method'])
    return {'tot': n_tot, 'tot_col': n_tot_col, 'tot_subs': n_tot_subs, 'par': n_par, 'par_col': n_par_col,
            'skipped': skipped}


def run(ctx):
    if getattr(ctx, 'replay', None):
        return _replay(ctx)
    quick = ctx.tier == 'quick'
    quiet()     # import OpenMDAO once, before the pools fork (eight concurrent imports cost a minute on a busy machine)
    ctx.register_predicates({KNOWN_SUBS_SCALING: _is_subs_after_scaling})

    # (0) self-check of the specification
    sc_res = {'ok': self_check(ctx)}

    # (a)+(b) real colorings of every pattern
    items, n_exh = gen_patterns(ctx.tier, ctx.seed)
    indexed = list(enumerate(items))
    rnd = random.Random(7919 * ctx.seed + 11)
    specs = _model_specs(rnd, 14 if quick else 40)
    # one pool for both kinds of work; the (slower) model chunks go first
    tasks = [('model', ch) for ch in split(specs, NPROC * 2) if ch] + \
            [('pattern', ch) for ch in split(indexed, NPROC * 8) if ch]
    out = pmap(_task_worker, tasks, nproc=NPROC)
    mres = [o for (kind, _), o in zip(tasks, out) if kind == 'model']
    by_k = {}
    for (kind, _), chunk in zip(tasks, out):
        if kind == 'pattern':
            for k, rs in chunk:
                by_k[k] = rs
    recs, alts = [], []
    for k in range(len(items)):
        for r in by_k[k]:
            recs.append(r)
            alts.append(k)

    verdicts = _judge_records(ctx, recs, 'cases', alts)

    # ---- bookkeeping for the pattern part
    n_col = sum(1 for r in recs if 'K' in r)
    n_bidir = n_subs = n_needsubs = n_fallback = n_better = n_expand = 0
    for r, v in zip(recs, verdicts):
        if v is None:
            continue
        unc = {'fwd': r['nc'], 'rev': r['nr'], 'auto': min(r['nr'], r['nc'])}[r['mode']]
        if v['solves'] < unc:
            n_better += 1
            ctx.note_nontrivial((r['nr'], r['nc'], tuple(map(tuple, r['cells'])), r['mode'], r['direct']))
        n_bidir += r['meta']['bidirectional']
        n_fallback += r['meta']['fallback']
        n_subs += bool(r['K']['subs'])
        n_needsubs += bool(v['needsubs'])
        n_expand += bool(r.get('expanded'))
    for r, v in zip(recs, verdicts):
        if v is not None and v['needsubs'] and len(r['K']['subs']) >= 2:
            ctx.sample({'pattern': r['cells'], 'shape': [r['nr'], r['nc']], 'mode': r['mode'], 'direct': r['direct'],
                        'coloring_1based': r['K'], 'tlc_verdict': v, 'single_direction_solves': [r['fs'], r['rs']]})
            break
    for r, v in zip(recs, verdicts):
        if v is not None and r['meta']['bidirectional'] and r['direct'] and r['mode'] == 'auto':
            ctx.sample({'pattern': r['cells'], 'shape': [r['nr'], r['nc']], 'mode': r['mode'], 'direct': r['direct'],
                        'coloring_1based': r['K'], 'tlc_verdict': v, 'single_direction_solves': [r['fs'], r['rs']]})
            break

    # ---- (c) model results
    cnt = _process_models(ctx, specs, mres)
    n_tot, n_tot_col, n_tot_subs, n_par, n_par_col, skipped = (cnt[k] for k in ('tot', 'tot_col', 'tot_subs', 'par',
                                                                                'par_col', 'skipped'))
    by_id = {s['id']: s for s in specs}
    if n_tot == 0 or n_tot_col == 0 or n_par_col == 0:
        raise MachineryError('model part is vacuous: %d total comparisons, %d colored, %d colored partials; skipped %s'
                             % (n_tot, n_tot_col, n_par_col, skipped[:3]))
    for chunk in mres[:1]:
        for mid, trow, prow in chunk[:1]:
            rows = [r for r in trow if r.get('colored')]
            if rows:
                r = rows[-1]
                ctx.sample({'model': {k: by_id[mid][k] for k in ('nr', 'nc', 'cells', 'isz', 'osz', 'chain')},
                            'mode': r['mode'], 'direct': r['direct'], 'driver_scaling': r['driver_scaling'],
                            'solves': r['solves'], 'uncolored_solves': r['uncolored_solves'], 'max_rel_diff': r['err']})

    ctx.impl = n_col + n_tot + n_par
    ctx.evaluations = 2 * n_col + n_expand * 2 + n_tot + n_par
    ctx.exhaustive = True
    ctx.extra.update({
        'patterns': len(items), 'patterns_exhaustive': n_exh, 'colorings_judged_by_tlc': n_col,
        'colorings_better_than_uncolored': n_better, 'bidirectional': int(n_bidir), 'auto_fell_back': int(n_fallback),
        'with_subtractions': n_subs, 'subtractions_needed': n_needsubs, 'single_direction_expand_checks': n_expand,
        'spec_selfcheck': sc_res['ok'],
        'model_total_comparisons': n_tot, 'model_totals_colored': n_tot_col, 'model_totals_with_subtractions': n_tot_subs,
        'model_partial_comparisons': n_par, 'models': len(specs), 'model_skips': len(skipped)})
    ctx.rule = ('every boolean sparsity pattern of shapes %s (%d patterns, exhaustive) plus %d seeded random/structured '
                'patterns up to %s, each x {fwd, rev, auto-direct, auto-substitution} through the real _compute_coloring '
                '(dense and sparse input alternating); TLC judges the projected coloring with generic values, and the same '
                'coloring recovers a matrix of distinct primes through the real scatter/expansion code; %d generated models '
                'colored vs uncolored (totals: 3 modes x direct/substitution x driver scaling; partials: fd and cs). '
                'Non-trivial = coloring needs fewer solves than the uncolored computation'
                % ('<=3x3, 2x4, 4x2' if quick else '<=4x4', n_exh, len(items) - n_exh, '8x8' if quick else '12x12',
                   len(specs)))
    ctx.assumptions = [
        'compressed products are formed exactly (J.seed / seed^T.J); the linear solves that produce them in a model are '
        'the subject of C01/C02',
        'indicator (0/1) seeds as produced by tangent_iter; randomized seeds (randomize_seeds) are used by OpenMDAO only '
        'for sparsity detection',
        'serial runs (no MPI scatter of colored columns)',
        'NoWorse compares with the number of columns/rows of the matrix (min of both for auto), the uncolored solve count',
    ]
