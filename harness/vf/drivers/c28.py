"""C28 (partial) - surrogate models reproduce training data and their own derivatives.

Spec: spec/mech/Surrogate.tla.  TLC enumerates four families and exports the exact expectation of each scenario:
 rs      integer quadratics (1-2 variables, 1-2 outputs) trained on a product lattice, off-lattice dyadic query points:
         exact value and gradient (law: gradient = exact central difference)          -> ResponseSurface.predict/linearize
 lookup  training sets for NearestNeighbor(linear, weighted, rbf) and KrigingSurrogate(nugget 0 / default) with the law
         Predict(train_x[i]) = train_y[i]                                              -> predict at every training input
 plumb   MetaModelUnStructuredComp structures (input sizes, output sizes, vec_size, default surrogate / one per output /
         mixed kinds) with integer quadratics: exact outputs, dense Jacobian and the index map M of which entry of which
         surrogate's linearize() each Jacobian entry forwards                          -> outputs and compute_totals
 dq      off-training dyadic query points for the relation linearize ~ central difference of predict (harness-judged)."""
import itertools
import os
from fractions import Fraction as F

from ..tlc import MachineryError
from ..util import pmap

RTOL = 1e-9
KRIG_TOL = 1e-6
KRIG_COND = 1e4
EXACT = 1e-12


def nproc():
    return max(1, min(int(os.environ.get('VERIF_NPROC', '16')), os.cpu_count() or 1))


def fr(x):
    return F(x[0], x[1])


def _pairs(D):
    return [(i, j) for i in range(D) for j in range(i, D)]


def quad(c, z):
    """the quadratic with ResponseSurface's coefficient order, exact in Fractions"""
    D = len(z)
    v = F(c[0]) + sum(F(c[1 + j]) * z[j] for j in range(D))
    for p, (i, j) in enumerate(_pairs(D)):
        v += F(c[1 + D + p]) * z[i] * z[j]
    return v


def make_surrogate(kind):
    import openmdao.api as om
    if kind == 'rs':
        return om.ResponseSurface()
    if kind.startswith('nn_'):
        return om.NearestNeighbor(interpolant_type=kind[3:])
    if kind == 'kriging0':
        return om.KrigingSurrogate(nugget=0.)
    if kind == 'kriging':
        return om.KrigingSurrogate()
    raise MachineryError('surrogate kind %s' % kind)


def _rs(s, v):
    import numpy as np
    axes = s['axes']
    pts = list(itertools.product(*axes))
    x = np.array(pts, dtype=float)
    y = np.array([[float(quad(c, [F(a) for a in p])) for c in s['c']] for p in pts])
    sur = make_surrogate('rs')
    sur.train(x, y)
    q = np.array([n / float(s['qd']) for n in s['q']])
    pred = np.atleast_1d(np.asarray(sur.predict(q.copy()), dtype=float)).ravel()
    lin = np.atleast_2d(np.asarray(sur.linearize(q.copy()), dtype=float))
    bad = []
    for o in range(len(s['c'])):
        w = float(fr(v['f'][o]))
        if not abs(pred[o] - w) <= RTOL * (1 + abs(w)):
            bad.append(('predict', o, float(pred[o]), w))
        for m in range(s['nv']):
            g = float(fr(v['g'][o][m]))
            if not abs(lin[o, m] - g) <= RTOL * (1 + abs(g)):
                bad.append(('linearize', o, m, float(lin[o, m]), g))
    if not bad and s['nv'] == 2:
        # the same scenario under a dyadic change of variables x -> (2^-12 x1, 2^7 x2): same values, gradients divided by
        # the factors.  Badly scaled inputs (condition number of the design matrix about 1e9): compared at 1e-6.
        sc = np.array([2.0 ** -12, 2.0 ** 7])
        sur2 = make_surrogate('rs')
        sur2.train(x * sc, y)
        pred2 = np.atleast_1d(np.asarray(sur2.predict(q * sc), dtype=float)).ravel()
        lin2 = np.atleast_2d(np.asarray(sur2.linearize(q * sc), dtype=float))
        for o in range(len(s['c'])):
            w = float(fr(v['f'][o]))
            if not abs(pred2[o] - w) <= 1e-6 * (1 + abs(w)):
                bad.append(('predict, inputs scaled by (2^-12, 2^7)', o, float(pred2[o]), w))
            for m in range(2):
                g = float(fr(v['g'][o][m])) / sc[m]
                if not abs(lin2[o, m] - g) <= 1e-6 * (abs(g) + 1 / sc[m]):
                    bad.append(('linearize, inputs scaled by (2^-12, 2^7)', o, m, float(lin2[o, m]), g))
    return {'bad': bad, 'clause': 'ResponseSurface does not reproduce the quadratic (%s)' %
            ('value' if any(b[0].startswith('predict') for b in bad) else 'gradient')}


def _lookup(s, v):
    import numpy as np
    x = np.array(s['pts'], dtype=float)
    y = np.array(s['ys'], dtype=float)
    sur = make_surrogate(s['sur'])
    sur.train(x.copy(), y.copy())
    tol = KRIG_TOL if s['sur'].startswith('kriging') else RTOL
    if s['sur'].startswith('kriging'):
        # KrigingSurrogate inverts its correlation matrix R with a deliberate Tikhonov damping (h = 1e-8 * largest
        # singular value): the relative interpolation error is about (1e-8 * cond(R))^2.  Smooth training data drive
        # the fitted correlation lengths up and cond(R) with them; that is conditioning, not structure, so the lookup
        # law is judged only where the damping is below the comparison tolerance (cond(R) <= 1e4), and counted otherwise.
        d = sur.X[:, None, :] - sur.X[None, :, :]
        R = np.exp(-(d ** 2 * sur.thetas).sum(axis=2))
        R[np.diag_indices_from(R)] = 1.0 + sur.options['nugget']
        cond = float(np.linalg.cond(R))
        if not cond <= KRIG_COND:
            return {'bad': [], 'skipped': 'ill-conditioned', 'cond': cond, 'clause': ''}
    bad = []
    for i in range(len(x)):
        p = np.atleast_1d(np.asarray(sur.predict(x[i].copy()), dtype=float)).ravel()
        for o in range(y.shape[1]):
            w = float(v['pred'][i][o])
            if not abs(p[o] - w) <= tol * (1 + abs(w)):
                bad.append((i, o, float(p[o]), w))
        if np.all(x[i] == np.rint(x[i])):
            # the same point handed over as an integer array
            try:
                pi = np.atleast_1d(np.asarray(sur.predict(x[i].astype(int)), dtype=float)).ravel()
            except Exception as e:
                pi = None
                bad.append(('integer-typed query raised %s' % type(e).__name__, i, 0, 0.0, 0.0))
            for o in range(y.shape[1]):
                w = float(v['pred'][i][o])
                if pi is not None and not abs(pi[o] - w) <= tol * (1 + abs(w)):
                    bad.append(('integer-typed query', i, o, float(pi[o]), w))
    if not bad and s['sur'].startswith('kriging'):
        # history: a training cache file written by an earlier training on the SAME inputs with other outputs must not
        # be served for these outputs
        import os
        import tempfile
        import openmdao.api as om
        d_ = tempfile.mkdtemp(dir=os.environ.get('OPENMDAO_WORKDIR') or None)
        try:
            cache = os.path.join(d_, 'krig_cache.npz')
            first = om.KrigingSurrogate(training_cache=cache)
            first.train(x.copy(), (2.0 * y + 1.0).copy())
            second = om.KrigingSurrogate(training_cache=cache)
            second.train(x.copy(), y.copy())
            for i in range(len(x)):
                p = np.atleast_1d(np.asarray(second.predict(x[i].copy()), dtype=float)).ravel()
                for o in range(y.shape[1]):
                    w = float(v['pred'][i][o])
                    if not abs(p[o] - w) <= tol * (1 + abs(w)):
                        bad.append(('after a cache file of another training', i, o, float(p[o]), w))
        finally:
            import shutil
            shutil.rmtree(d_, ignore_errors=True)
    return {'bad': bad, 'clause': '%s: predict at a training input differs from the training output' % s['sur']}


def _dq(s, v):
    import numpy as np
    x = np.array(s['pts'], dtype=float)
    y = np.array(s['ys'], dtype=float)
    sur = make_surrogate(s['sur'])
    sur.train(x.copy(), y.copy())
    q = np.array([n / float(s['qd']) for n in s['q']])
    h = float(fr(v['h']))
    tol = float(fr(v['tol']))
    lin = np.asarray(sur.linearize(q.copy()), dtype=float).reshape(-1)
    bad = []
    for j in range(len(q)):
        e = np.zeros(len(q))
        e[j] = h
        fp = float(np.asarray(sur.predict(q + e)).ravel()[0])
        fm = float(np.asarray(sur.predict(q - e)).ravel()[0])
        d = (fp - fm) / (2 * h)
        if not abs(lin[j] - d) <= tol * (1 + abs(d)):
            bad.append((j, float(lin[j]), d))
    if not bad and s['sur'] == 'nn_rbf':
        # the same scenario with the other radial basis function families (compactly supported and the multiquadric)
        import openmdao.api as om
        for fam in (-1, 1, 3):     # (the multiquadric -3 is left out: see DESIGN.md 16.8)
            try:
                sf = om.NearestNeighbor(interpolant_type='rbf', rbf_family=fam)
                sf.train(x.copy(), y.copy())
                linf = np.asarray(sf.linearize(q.copy()), dtype=float).reshape(-1)
                for j in range(len(q)):
                    e = np.zeros(len(q))
                    e[j] = h
                    fp = float(np.asarray(sf.predict(q + e)).ravel()[0])
                    fm = float(np.asarray(sf.predict(q - e)).ravel()[0])
                    d = (fp - fm) / (2 * h)
                    if not (abs(linf[j] - d) <= tol * (1 + abs(d))):
                        bad.append(('rbf_family=%d' % fam, j, float(linf[j]), d))
            except Exception:
                pass            # families that refuse the training set (dimension / size) are not judged
    return {'bad': bad, 'clause': '%s: linearize differs from the central difference quotient of predict' % s['sur']}


def _plumb(s, v, idx):
    import numpy as np
    import openmdao.api as om
    ins, outs, vec = s['ins'], s['outs'], s['vec']
    D = sum(ins)
    lat = list(itertools.product(*([s['lat']] * D)))
    X = np.array(lat, dtype=float)
    kinds = []
    for o in range(len(outs)):
        nn = (s['sur'] == 'nn_rs' and o == 0) or (s['sur'] == 'rs_nn' and o == len(outs) - 1)
        kinds.append('nn_rbf' if nn else 'rs')
    default = om.ResponseSurface() if s['sur'] == 'rs_default' else None
    mm = om.MetaModelUnStructuredComp(vec_size=vec, default_surrogate=default)
    off = 0
    for i, sz in enumerate(ins):
        shape = (vec, sz) if vec > 1 else (sz,)
        mm.add_input('in%d' % i, val=np.zeros(shape), training_data=X[:, off:off + sz].copy())
        off += sz
    for o, sz in enumerate(outs):
        shape = (vec, sz) if vec > 1 else (sz,)
        Y = np.array([[float(quad(s['c'][o][k], [F(a) for a in p])) for k in range(sz)] for p in lat])
        mm.add_output('out%d' % o, val=np.zeros(shape), training_data=Y,
                      surrogate=None if s['sur'] == 'rs_default' else make_surrogate(kinds[o]))
    p = om.Problem()
    ivc = p.model.add_subsystem('ivc', om.IndepVarComp())
    for i, sz in enumerate(ins):
        ivc.add_output('x%d' % i, val=np.zeros((vec, sz) if vec > 1 else (sz,)))
    p.model.add_subsystem('mm', mm)
    for i in range(len(ins)):
        p.model.connect('ivc.x%d' % i, 'mm.in%d' % i)
    mode = 'fwd' if idx % 2 == 0 else 'rev'
    p.setup(mode=mode)
    Z = np.array(s['z'], dtype=float) / 2.0             # (vec, D)
    off = 0
    for i, sz in enumerate(ins):
        blk = Z[:, off:off + sz]
        p.set_val('ivc.x%d' % i, blk if vec > 1 else blk[0])
        off += sz
    p.run_model()
    yobs = np.concatenate([np.asarray(p.get_val('mm.out%d' % o), dtype=float).ravel() for o in range(len(outs))])
    of = ['mm.out%d' % o for o in range(len(outs))]
    wrt = ['ivc.x%d' % i for i in range(len(ins))]
    tot = p.compute_totals(of=of, wrt=wrt)
    Jobs = np.vstack([np.hstack([np.atleast_2d(tot[(a, b)]) for b in wrt]) for a in of])
    # what the surrogates themselves say at the same points
    pred, lin = {}, {}
    for o in range(len(outs)):
        sur = mm._metadata('out%d' % o)['surrogate']
        for r in range(vec):
            pred[(o, r)] = np.asarray(sur.predict(Z[r].copy()), dtype=float).ravel()
            lin[(o, r)] = np.asarray(sur.linearize(Z[r].copy()), dtype=float).reshape(outs[o], D)
    bad = []
    M = v['M']
    nr, nc = len(M), len(M[0])
    if Jobs.shape != (nr, nc) or len(yobs) != nr:
        return {'bad': [('shape', Jobs.shape, (nr, nc))], 'clause': 'plumbing: wrong shapes'}
    # rows of y follow the same (output, row, component) order as the rows of M: find one reference per row
    for x in range(nr):
        ref = next(m for m in M[x] if m != [0, 0, 0, 0])
        o, r, k = ref[0] - 1, ref[1] - 1, ref[2] - 1
        if not abs(yobs[x] - pred[(o, r)][k]) <= EXACT * (1 + abs(yobs[x])):
            bad.append(('output!=predict', x, float(yobs[x]), float(pred[(o, r)][k])))
        if v['rs'][o]:
            w = float(fr(v['y'][x]))
            if not abs(yobs[x] - w) <= RTOL * (1 + abs(w)):
                bad.append(('output!=spec', x, float(yobs[x]), w))
        for w_ in range(nc):
            m = M[x][w_]
            want = 0.0 if m == [0, 0, 0, 0] else lin[(m[0] - 1, m[1] - 1)][m[2] - 1][m[3] - 1]
            if not abs(Jobs[x, w_] - want) <= EXACT * (1 + abs(want)):
                bad.append(('partial!=linearize', (x, w_), float(Jobs[x, w_]), float(want)))
            if v['rs'][o]:
                ws = float(fr(v['J'][x][w_]))
                if not abs(Jobs[x, w_] - ws) <= RTOL * (1 + abs(ws)):
                    bad.append(('partial!=spec', (x, w_), float(Jobs[x, w_]), ws))
    kind = bad[0][0] if bad else ''
    return {'bad': bad, 'clause': 'MetaModelUnStructuredComp (%s mode): %s' % (mode, kind)}


def _worker(items):
    from ..util import quiet
    quiet()
    out = []
    for idx, e in items:
        s, v = e['s'], e['v']
        try:
            if s['part'] == 'rs':
                out.append(_rs(s, v))
            elif s['part'] == 'lookup':
                out.append(_lookup(s, v))
            elif s['part'] == 'dq':
                out.append(_dq(s, v))
            else:
                out.append(_plumb(s, v, idx))
        except Exception as ex:
            out.append({'err': '%s: %s' % (type(ex).__name__, str(ex)[:300])})
    return out


# --- genuine defects recognised on the unchanged tree (see proposed_fixes/C28.diff) --------------------------------
def pred_nn_inplace(s, info):
    """NearestNeighbor.predict reshapes the caller's 1-D array in place: a later ResponseSurface on the same point fails"""
    return s['part'] == 'plumb' and s['sur'] == 'nn_rs' and s['vec'] == 1 and sum(s['ins']) >= 2


def _collinear_neighbours(pts):
    """2-D: some training point whose three nearest neighbours (itself included; scaled coordinates; every choice
    among equidistant candidates) are collinear"""
    D = len(pts[0])
    if D != 2:
        return False
    rng = [max(p[j] for p in pts) - min(p[j] for p in pts) or 1 for j in range(D)]
    for i, a in enumerate(pts):
        d2 = sorted((sum(F(a[j] - b[j], rng[j]) ** 2 for j in range(D)), k) for k, b in enumerate(pts) if k != i)
        cut = d2[1][0]
        cand = [pts[k] for d, k in d2 if d <= cut]
        for b, c in itertools.combinations(cand, 2):
            if (b[0] - a[0]) * (c[1] - a[1]) - (b[1] - a[1]) * (c[0] - a[0]) == 0:
                return True
    return False


def pred_nn_linear_degenerate(s, info):
    return s['part'] == 'lookup' and s['sur'] == 'nn_linear' and _collinear_neighbours(s['pts'])


def _short(v):
    return {k: v[k] for k in v if k not in ('M', 'J')}


def run(ctx):
    quick = ctx.tier == 'quick'
    parts = os.environ.get('VERIF_C28_PARTS')
    parts = parts.split(',') if parts else ['rs', 'lookup', 'plumb', 'dq']
    cfg = ctx.write_cfg('Surrogate.cfg', '''CONSTANTS
  Parts = {%s}
  NSeeds = %d
INIT Init
NEXT Next
INVARIANT RsLaw
INVARIANT LookupLaw
INVARIANT DqLaw
INVARIANT PlumbLaw
INVARIANT Export
''' % (', '.join('"%s"' % p for p in parts), 2 if quick else 5))
    r = ctx.tlc_check('mech/Surrogate', cfg, timeout=3000, heap='6g', workers=min(8, nproc()))
    ctx.require_actions(['Choose'])
    exps = r.exports('EXP')
    seen = set(e['s']['part'] for e in exps)
    if seen != set(parts):
        raise MachineryError('parts exported: %s' % sorted(seen))
    ctx.register_predicates({'C28-nn-inplace-reshape': pred_nn_inplace,
                             'C28-nn-linear-degenerate': pred_nn_linear_degenerate})
    items = list(enumerate(exps))
    n = nproc()
    # Kriging training dominates: interleave so that every chunk gets its share
    chunks = [items[i::n * 3] for i in range(n * 3)]
    chunks = [c for c in chunks if c]
    res = pmap(_worker, chunks, nproc=n)
    per = {}
    skipped = {}
    for ch, rs in zip(chunks, res):
        for (idx, e), o in zip(ch, rs):
            s, v = e['s'], e['v']
            part = s['part']
            per[part] = per.get(part, 0) + 1
            if part == 'rs':
                if s['nv'] == 2 or any(abs(n_) > 8 for n_ in s['q']):
                    ctx.note_nontrivial(('rs', str(s['axes']), str(s['c']), str(s['q'])))
            elif part == 'plumb':
                if s['vec'] > 1 or len(s['ins']) > 1 or len(s['outs']) > 1:
                    ctx.note_nontrivial(('plumb', str(s['ins']), str(s['outs']), s['vec'], s['sur'], s['sd']))
            else:
                ctx.note_nontrivial((part, s['sur'], str(s['pts']), s['sd'], str(s.get('q'))))
            if o.get('skipped'):
                skipped[s['sur']] = skipped.get(s['sur'], 0) + 1
                continue
            if 'err' in o:
                ctx.violation(s, _short(v), o['err'], '%s: raised' % part)
            elif o['bad']:
                ctx.violation(s, _short(v), o['bad'][:4], o['clause'])
    ctx.impl = len(exps)
    ctx.evaluations = len(exps)
    ctx.exhaustive = True
    ctx.extra['scenarios_per_part'] = per
    ctx.extra['kriging_lookup_not_judged_ill_conditioned'] = skipped
    for part in ('rs', 'plumb', 'lookup'):
        es = [e for e in exps if e['s']['part'] == part]
        if es:
            e = es[len(es) // 2]
            ctx.sample({'scenario': e['s'], 'spec': _short(e['v'])})
    ctx.rule = ('every scenario of Surrogate.tla: rs = {2 one-dimensional lattices x 4^3 integer coefficient sets x 5 dyadic '
                'queries} + {2 two-dimensional lattices x seeded coefficient sets for two outputs x 6 queries}; lookup = 5 '
                'surrogate kinds x 5 training point sets (1-D, 2-D scattered, 3x3 lattice) x seeds x 1-2 outputs; plumb = '
                'input sizes {(1),(2),(1,1),(1,2)} x output sizes {(1),(1,1),(2),(2,1)} x vec_size 1-3 x {default surrogate, '
                'one per output, NearestNeighbor+ResponseSurface in both orders} x seeds; dq = surrogate kinds x point sets '
                'x off-training dyadic points; non-trivial = everything except 1-variable rs queries inside the lattice and '
                'single-input single-output vec_size 1 plumbing')
    ctx.assumptions = [
        'PARTIAL: the specification decides (a) ResponseSurface on integer quadratics in 1-2 variables, (b) the lookup law '
        'Predict(train_x[i]) = train_y[i] (tolerance 1e-9, Kriging 1e-6) and (c) the plumbing identity of '
        'MetaModelUnStructuredComp (outputs = predict, partials = linearize entries placed by the index map M, 1e-12; and '
        'the exact quadratic values where every surrogate is a ResponseSurface, 1e-9)',
        '(d) linearize vs predict of NearestNeighbor / Kriging is only a difference-quotient RELATION on observed numbers '
        '(central difference, h = 1e-6, tolerance 1e-4) at off-training dyadic points: not a specification value; derivative '
        'accuracy of the transcendental surrogates is otherwise not decided',
        'Kriging lookup is judged only when the fitted correlation matrix has cond(R) <= 1e4: KrigingSurrogate damps the '
        'inverse (h = 1e-8 * s_max), so on smooth data with long fitted correlation lengths predict misses the training '
        'outputs by up to ~5e-3 (observed, seed 4 of the thorough tier); such scenarios are counted, not compared',
        'Kriging hyper-parameter optimisation is taken as is (small well-spread integer training sets); training caches, '
        'eval_rmse, vectorized_predict and surrogates without linearize (finite-difference fallback) are not covered',
    ]
