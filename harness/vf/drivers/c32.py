"""C32 - feed-forward models are fully solved by one ordered pass.

Spec: spec/mech/Order.tla (ValidOrder: producers before consumers across strongly connected components, declared
relative order inside one; Pass: exact result of one ordered pass of "y = 1 + sum of predecessors" components) with the
theorems Exists, OnePassSolves, BadOrderDetected checked exhaustively, and spec/mech/OrderJudge.tla which judges the
orders the real Group(auto_order=True) chooses.  TLC enumerates every digraph on N subsystems x every declared order;
each is built (flat, and with the subsystems nested one level inside an auto_order subgroup), set up and run: the
observed subsystem order is judged by TLC, and for acyclic graphs outputs = Pass and all residuals = 0."""
import itertools
import random

import numpy as np

from ..tlc import MachineryError
from ..util import pmap, quiet, split


def build(sc, nested, late_edge=False):
    import openmdao.api as om
    n = sc['n']
    # the option is declared after Group.__init__ consumed its kwargs, so it is set on the instance
    p = om.Problem()
    top = p.model
    if nested:
        if nested == 'parent':
            # the parent orders its own children as well and is itself declared in order
            top.options['auto_order'] = True
            top.add_subsystem('first', om.ExecComp('w = 2.0*v', w=0.0))
        g = top.add_subsystem('g', om.Group())
        if nested == 'parent':
            top.add_subsystem('last', om.ExecComp('w = 2.0*v', w=0.0))
            top.connect('first.w', 'last.v')
    else:
        g = top
    g.options['auto_order'] = True
    edges = [tuple(e) for e in sc['edges']]
    preds = {c: sorted(a for (a, b) in edges if b == c) for c in range(1, n + 1)}
    for c in sc['decl']:
        if preds[c]:
            expr = 'y = 1.0 + ' + ' + '.join('a%d' % a for a in preds[c])
        else:
            expr = 'y = 1.0 + 0.0*z'
        g.add_subsystem('c%d' % c, om.ExecComp(expr, y=0.0))
    for (a, b) in (edges[:-1] if late_edge else edges):
        g.connect('c%d.y' % a, 'c%d.a%d' % (b, a))
    return p, g


def _worker(chunk):
    quiet()
    out = []
    for sc, nested in chunk:
        try:
            late = nested == 'reconnect' and len(sc['edges']) > 0
            p, g = build(sc, 'parent' if nested in ('parent', 'resetup', 'reconnect') else nested, late_edge=late)
            p.setup()
            p.final_setup()
            if nested == 'reconnect':
                # the last connection is made after a first setup (and run): the second setup must order by the new graph
                if late:
                    try:
                        p.run_model()
                    except Exception:
                        pass
                    a, b = [tuple(e) for e in sc['edges']][-1]
                    g.connect('c%d.y' % a, 'c%d.a%d' % (b, a))
                p.setup()
                p.final_setup()
            if nested == 'resetup':
                # a second setup of the same Problem (after a run) must order the subsystems again
                if sc['acyclic']:
                    p.run_model()
                p.setup()
                p.final_setup()
            order = [int(s.name[1:]) for s in g._subsystems_myproc if s.name.startswith('c')]
            res = {'ord': order}
            if sc['acyclic']:
                p.run_model()
                pre = 'g.' if nested else ''
                res['y'] = [float(p.get_val(pre + 'c%d.y' % c)[0]) for c in range(1, sc['n'] + 1)]
                p.model.run_apply_nonlinear()
                res['resid'] = float(np.abs(p.model._residuals.asarray()).max())
            out.append(res)
        except Exception as e:
            out.append({'exc': '%s: %s' % (type(e).__name__, e)})
    return out


def run(ctx):
    quick = ctx.tier == 'quick'
    N = 3 if quick else 4
    cfg = ctx.write_cfg('Order.cfg', 'CONSTANT N = %d\nINIT Init\nNEXT Next\nINVARIANT Exists\nINVARIANT OnePassSolves\n'
                                     'INVARIANT BadOrderDetected\nINVARIANT Export\n' % (3 if quick else 3))
    r = ctx.tlc_check('mech/Order', cfg, timeout=3000)
    ctx.require_actions(['Choose'])
    scen = r.exports('EXP')
    if not quick:
        # N = 4: 4096 digraphs x 24 orders; the theorems are checked on all, a seeded sample is exported for the binding
        cfg4 = ctx.write_cfg('Order4.cfg', 'CONSTANT N = 4\nINIT Init\nNEXT Next\nINVARIANT Exists\nINVARIANT Export\n')
        r4 = ctx.tlc_check('mech/Order', cfg4, timeout=3000, coverage=False, heap='12g')
        big = r4.exports('EXP')
        random.Random(ctx.seed).shuffle(big)
        scen += big[:6000]
    for s in scen:
        s['edges'] = sorted(tuple(e) for e in s['edges'])
    jobs = [(s, nested) for s in scen for nested in (False, True, 'parent', 'resetup', 'reconnect')]
    chunks = [c for c in split(jobs, 64) if c]
    res = [x for rs in pmap(_worker, chunks) for x in rs]
    # re-assemble in job order (split() is strided)
    order = [j for c in split(list(range(len(jobs))), 64) if c for j in c]
    obs = [None] * len(jobs)
    for j, x in zip(order, res):
        obs[j] = x
    cases, idx = [], []
    for j, ((s, nested), o) in enumerate(zip(jobs, obs)):
        if 'exc' in o:
            ctx.violation({'graph': s, 'nested': nested}, 'setup and run succeed', o['exc'], 'exception from OpenMDAO')
            continue
        cases.append({'n': s['n'], 'edges': [list(e) for e in s['edges']], 'decl': s['decl'], 'ord': o['ord']})
        idx.append(j)
    path = ctx.write_json('orders.json', cases)
    cfgj = ctx.write_cfg('OrderJudge.cfg', 'INIT Init\nNEXT Next\nINVARIANT Export\n')
    rj = ctx.tlc_check('mech/OrderJudge', cfgj, env={'OM_ORDERS': path}, timeout=3000, coverage=False)
    v = {e['tid']: e['v'] for e in rj.exports('EXP')}
    if len(v) != len(cases):
        raise MachineryError('order verdicts missing')
    for k, j in enumerate(idx):
        (s, nested), o = jobs[j], obs[j]
        if s['edges'] and s['decl'] != sorted(s['decl']):
            ctx.note_nontrivial(str((s['edges'], s['decl'], nested)))
        if not v[k + 1]:
            ctx.violation({'graph': s, 'nested': nested}, 'ValidOrder(edges, declared, observed)', o['ord'],
                          'observed execution order violates the data dependencies or reorders a cycle')
        elif s['acyclic']:
            if any(abs(a - b) > 1e-12 for a, b in zip(o['y'], s['y'])):
                ctx.violation({'graph': s, 'nested': nested}, s['y'], o['y'], 'outputs after one run_model differ from the one-pass result')
            elif o['resid'] > 1e-12:
                ctx.violation({'graph': s, 'nested': nested}, 0.0, o['resid'], 'a residual is non-zero after one run_model')
    ctx.impl = len(cases)
    ctx.evaluations = len(cases)
    ctx.exhaustive = quick
    for s in scen[100:400:140]:
        ctx.sample({'n': s['n'], 'edges': s['edges'], 'declared': s['decl'], 'acyclic': s['acyclic'], 'one_pass_outputs': s['y']})
    ctx.rule = ('every digraph on %d subsystems x every declared order (TLC), each built flat, nested one level with '
                'auto_order=True, nested below an auto_order parent that is itself in order, set up a second time after a run, and set up again after the last connection was added%s; non-trivial = distinct (graph with at least one edge, non-identity declared order, nesting) cases'
                % (3, '' if quick else ' plus a seeded sample of 6000 of the 98304 four-node cases'))
    ctx.assumptions = ['scalar ExecComp subsystems; run-once solvers (the default)', 'no MPI']
