"""C19 - loading a recorded case restores the recorded state.

Spec: spec/mech/LoadCase.tla - state = values of all outputs (the sources) and inputs by absolute name;
LoadCase(c): the input vector takes c's inputs and they are written back through the connection (positions, units) into
their sources, then c's outputs override; GetVal after LoadCase; RunModel = F(independent values).
(a) TLC checks the laws Restored / ViewRestored / FinalConsistent / OthersKept / Reproduced on a small instance (a source
    with permuted positions and a unit factor, a chain of two components, every subset of recorded names, final and
    mid-solve cases, both input orders) and REFUTES the three non-theorems that justify the preconditions.
(b) V: generated models (units, src_indices chains, promotion, cycles with NLBGS/Newton/...), recorded by a problem, a
    driver, the root system, a random subsystem, the root nonlinear solver and a sub-solver recorder (one file each,
    default or random recording_options); cases picked first / middle / last of every file (final and mid-solve; the live
    snapshot taken at the record tells which).  Every picked case is loaded into a FRESH Problem of the same description
    (after setup, after final_setup, or after a run with other values); then for every recorded input and output: get_val
    by absolute name, by promoted name, from_src=False; then run_model and every recorded output again.  The harness
    compares floats (exact equality classes, 1e-12 / 1e-10 closeness); LoadCase.tla decides which law applies (is the
    input consistent with the case, does the case determine every independent variable, is it final) and judges.

Stand-alone reproduction of one scenario (no TLC):  PYTHONPATH=/verif/harness /venv/bin/python -m vf.drivers.c19 <seed>
"""
import os
import random
import sys
import traceback
import warnings

import numpy as np

from .. import modelgen as mg
from .. import ombuild as ob
from ..sysdriver import gen_model
from ..tlc import MachineryError
from ..util import pmap, quiet, split
from . import c17

PAR = int(os.environ.get('VERIF_C19_PAR', '16'))
TLC_WORKERS = int(os.environ.get('VERIF_C19_TLC_WORKERS', '16'))
OPTS = {'storage': ['dense', 'rowscols', 'csc'], 'cyc_frac': .5, 'voi_scaling': False, 'voi_indices': False, 'implicit': .2,
        'shared': False}


def plan(seed):
    md, ref, rng = gen_model(seed, OPTS)
    if md is None:
        return None
    groups = list(md['groups'])
    comps = [ob.comp_path(c) for c in md['comps']]
    subs = [g for g in groups if g] + [c for c in comps if c != 'ivc']
    att = ['problem', 'driver', 'sys:', 'nl:']
    att.append('sys:' + rng.choice(subs))
    subg = [g for g in groups if g]
    if subg:
        att.append('nl:' + rng.choice(subg))
    options = {}
    for r in att:
        if rng.random() < .35:
            options[r] = c17.rand_options(rng, r, md)
        elif r in ('problem', 'driver'):
            options[r] = {'includes': ['*'], 'record_inputs': True}
    ivc_outs = md['comps'][0]['outs']
    sets = [[oid, [rng.randrange(-3, 4) for _ in range(int(np.prod(md['outs'][oid]['shape'])))]] for oid in ivc_outs]
    other = [[oid, [rng.randrange(-3, 4) for _ in range(int(np.prod(md['outs'][oid]['shape'])))]] for oid in ivc_outs]
    return {'seed': seed, 'md': md, 'att': att, 'options': options, 'set': sets, 'other': other,
            'phase': rng.choice(['setup', 'final_setup', 'after-run']), 'pick': rng.random()}


def structure(md):
    """the record M of LoadCase.tla, from the model description"""
    outs = md['outs']
    src, pos, fac, off = {}, {}, {}, {}
    for i in md['ins']:
        n = ob.in_path(md, i['id'])
        src[n] = ob.out_path(md, i['src'])
        pos[n] = [p + 1 for p in mg.conn_positions(i, outs)]
        fac[n] = float(mg.fr(i['fac']))
        off[n] = float(mg.fr(i['off']))
    size = {ob.out_path(md, o['id']): int(np.prod(o['shape'])) for o in outs}
    indep = [ob.out_path(md, oid) for oid in md['comps'][0]['outs']]
    return {'src': src, 'pos': pos, 'fac': fac, 'off': off, 'size': size, 'indep': indep}


def record_run(sc, work):
    """run the model with one recorder file per requester; returns {requester: path}, observation"""
    import openmdao.api as om
    c17.install()
    md = sc['md']
    p = ob.build(md, {'mode': 'auto'}, setup=False)
    files = {}
    recs = {}
    for r in sc['att']:
        path = os.path.join(work, 'c19_%d_%s_%d.sql' % (sc['seed'], r.replace(':', '-').replace('.', '_'), os.getpid()))
        rec = om.SqliteRecorder(path, record_viewer_data=False)
        c17.requester_obj(p, r).add_recorder(rec)
        for k, v in sc['options'].get(r, {}).items():
            c17.requester_obj(p, r).recording_options[k] = v
        files[r] = path
        recs[r] = rec
    p.setup()
    obs = c17.Observation(p, md)
    for r, rec in recs.items():
        obs.files[id(rec)] = r
    c17.Obs.active = obs
    try:
        p.final_setup()
        obs.register()
        for oid, vals in sc['set']:
            p.set_val(ob.out_path(md, oid), np.array(vals, dtype=float).reshape(md['outs'][oid]['shape']))
        p.run_driver()
        p.record('final')
        m = p.model
        end = {'inp': c17._vec_values(m._inputs, m._inputs.asarray(copy=True)),
               'out': c17._vec_values(m._outputs, m._outputs.asarray(copy=True))}
    finally:
        c17.Obs.active = None
        p.cleanup()
    return files, obs, end


def vid(ids, x):
    a = np.ascontiguousarray(np.asarray(x, dtype=float).ravel())
    return ids.setdefault(a.tobytes(), len(ids) + 1)


def close(a, b, tol):
    a = np.asarray(a, dtype=float).ravel()
    b = np.asarray(b, dtype=float).ravel()
    if a.shape != b.shape:
        return False
    return bool(np.all(np.abs(a - b) <= tol * np.maximum(1.0, np.abs(b))))


def load_and_observe(sc, M, case, req, final, pnames):
    """fresh Problem, load_case, reads, run_model, reads: one observation record for LoadCase.tla"""
    from openmdao.core.analysis_error import AnalysisError
    md = sc['md']
    p2 = ob.build(md, {'mode': 'auto'})
    if sc['phase'] != 'setup':
        p2.final_setup()
    if sc['phase'] == 'after-run':
        for oid, vals in sc['other']:
            p2.set_val(ob.out_path(md, oid), np.array(vals, dtype=float).reshape(md['outs'][oid]['shape']))
        p2.run_model()
    recin = [str(n) for n in case.inputs.absolute_names()] if case.inputs is not None else []
    recout = [str(n) for n in case.outputs.absolute_names()] if case.outputs is not None else []
    rin = {n: np.array(case.inputs[n], dtype=float) for n in recin}
    rout = {n: np.array(case.outputs[n], dtype=float) for n in recout}
    # the sources before the load (needed to say what a consistent read is, see ConsistentAt in LoadCase.tla)
    before = {s: np.array(p2.get_val(s), dtype=float).ravel().copy() for s in M['size']}
    with warnings.catch_warnings(record=True) as w:
        warnings.simplefilter('always')
        p2.load_case(case)
    warns = sorted(set(str(x.message)[:140] for x in w if 'recorded in the case is not found' in str(x.message)))
    # Load() of LoadCase.tla in floats
    out1 = {s: v.copy() for s, v in before.items()}
    for n in recin:
        s = M['src'][n]
        v = rin[n].ravel()
        for k, pz in enumerate(M['pos'][n]):
            out1[s][pz - 1] = (v[k] - M['off'][n]) / M['fac'][n]
    for s in recout:
        out1[s] = rout[s].ravel().copy()
    ids = {}
    vs = []
    for n in recout:
        rec = rout[n]
        vs.append({'n': n, 'k': 'out', 'rec': vid(ids, rec), 'abs': vid(ids, p2.get_val(n)), 'prom': vid(ids, p2.get_val(pnames.get(n, n))),
                   'vec': 0, 'close': True, 'pclose': True, 'cons': True, 'runclose': True})
    for n in recin:
        rec = rin[n]
        s = M['src'][n]
        view = np.array([M['fac'][n] * out1[s][pz - 1] + M['off'][n] for pz in M['pos'][n]])
        got = p2.get_val(n)
        try:
            gotp = p2.get_val(pnames.get(n, n))
        except Exception:
            gotp = got
        # before final_setup there is no input vector: the sources are the whole store (spec/sys/OMSetGet.tla), the
        # from_src=False read is then not an observation of the loaded state
        vec = vid(ids, p2.get_val(n, from_src=False)) if sc['phase'] != 'setup' else vid(ids, rec)
        vs.append({'n': n, 'k': 'inp', 'rec': vid(ids, rec), 'abs': vid(ids, got), 'prom': vid(ids, gotp),
                   'vec': vec, 'close': close(got, rec, 1e-12), 'pclose': close(gotp, rec, 1e-12),
                   'cons': close(view, rec, 1e-12), 'runclose': True})
    ran = True
    try:
        p2.run_model()
    except AnalysisError:
        ran = False
    if ran:
        for v in vs:
            if v['k'] == 'out':
                v['runclose'] = close(p2.get_val(v['n']), rout[v['n']], 1e-10)
    return {'M': {'src': dict(M['src'], **{'-': '-'}), 'pos': dict(M['pos'], **{'-': [1]}), 'size': M['size'], 'indep': M['indep']},
            'recin': recin, 'recout': recout, 'final': bool(final and ran), 'vars': vs}, \
        {'req': req, 'case': case.name, 'warnings': warns, 'ran': ran, 'nin': len(recin), 'nout': len(recout)}


def observe(seed, work=None):
    import openmdao.api as om
    from openmdao.core.analysis_error import AnalysisError
    quiet()
    sc = plan(seed)
    if sc is None:
        return {'skip': 'rejected', 'seed': seed}
    work = work or os.environ.get('OPENMDAO_WORKDIR', '/tmp')
    files = {}
    try:
        try:
            files, obs, end = record_run(sc, work)
        except AnalysisError:
            return {'skip': 'noconv', 'seed': seed}
        M = structure(sc['md'])
        # promoted name under which an absolute input can be read at the problem level
        pnames = {}
        for i in sc['md']['ins']:
            t = ob.in_path(sc['md'], i['id'])
            # (src_indices applied at a promotion level make the promoted name a different view than the input itself)
            if i.get('how', 'connect') == 'promote' and all(pl_.get('link') is None for pl_ in i['plevels']):
                parts = t.split('.')
                gparts = parts[:-2]
                pl = i['plevels']
                top = '.'.join(gparts[:len(gparts) - (len(pl) - 1)])
                pnames[t] = (top + '.' if top else '') + pl[-1]['alias']
        out = []
        rng = random.Random(seed * 31 + 7)
        for r, path in files.items():
            if not os.path.exists(path):
                continue
            recs = [e for e in obs.events if e['e'] == 'rec' and e['file'] == r]
            cr = om.CaseReader(path)
            allc = cr.list_cases(out_stream=None)
            if len(allc) != len(recs):
                return {'exc': 'harness: %d cases read, %d recorded (%s)' % (len(allc), len(recs), r), 'tb': '', 'sc': sc, 'seed': seed}
            if not allc:
                continue
            picks = sorted(set([0, len(allc) - 1] + ([rng.randrange(len(allc))] if len(allc) > 2 else [])))
            for k in picks:
                case = cr.get_case(allc[k])
                snap = obs.snaps[recs[k]['snap']]
                final = snap['inp'] == end['inp'] and snap['out'] == end['out']
                o, info = load_and_observe(sc, M, case, r, final, pnames)
                info['final'] = final
                info['idx'] = [k, len(allc)]
                out.append((o, info))
        return {'seed': seed, 'sc': sc, 'obs': out}
    except Exception as e:
        return {'exc': '%s: %s' % (type(e).__name__, e), 'tb': traceback.format_exc()[-2000:], 'sc': sc, 'seed': seed}
    finally:
        for path in files.values():
            for suffix in ('', '-journal'):
                try:
                    os.remove(path + suffix)
                except OSError:
                    pass


def _worker(args):
    seeds, work = args
    return [observe(s, work) for s in seeds]


MC_CFG = 'INIT MCInit\nNEXT MCNext\n' + ''.join('INVARIANT %s\n' % i for i in
                                                  ('Restored', 'ViewRestored', 'FinalConsistent', 'OthersKept', 'Reproduced'))


def model_check(ctx):
    empty = ctx.write_json('lc_empty.json', [])
    ctx.tlc_check('mech/LoadCase', ctx.write_cfg('LoadCase.cfg', MC_CFG), env={'LC_OBS': empty}, workers=max(2, TLC_WORKERS // 2),
                  timeout=1800)
    ctx.require_actions(['MCLoad', 'MCRun'])
    refuted = {}
    for inv in ('MidReproduced', 'UncoveredReproduced', 'ViewAlways'):
        r = ctx.tlc_run('mech/LoadCase', ctx.write_cfg('LoadCase_%s.cfg' % inv, 'INIT MCInit\nNEXT MCNext\nINVARIANT %s\n' % inv),
                        env={'LC_OBS': empty}, workers=2, timeout=900)
        if inv not in r.violated:
            raise MachineryError('LoadCase: non-theorem %s should be refuted but TLC says:\n%s' % (inv, r.tail(30)))
        refuted[inv] = 'refuted'
    return refuted


def slim(sc):
    return {'seed': sc['seed'], 'attached': sc['att'], 'options': sc['options'], 'set': sc['set'], 'phase': sc['phase'], 'model': sc['md']}


PREDICATES = {
    # a recorder attached to a subsystem (or its solver) names outputs relative to that subsystem; load_case looks the
    # names up in the model namespace, warns "not found in the model" and leaves the outputs unrestored
    # (an input whose recorded source was thereby not restored reads the old source: same cause)
    'C19-subsystem-relative-names': lambda sc, info: 'not-restored' in info.get('why', '') and
    info.get('req', '').split(':', 1)[-1] != '' and info.get('req') not in ('problem', 'driver') and bool(info.get('warnings')),
}


def run(ctx):
    import concurrent.futures
    quick = ctx.tier == 'quick'
    n = int(os.environ.get('VERIF_C19_N', 0)) or (70 if quick else 700)
    base = 19000001 * (1 + ctx.seed % 1000)
    seeds = list(range(base, base + n))
    with concurrent.futures.ThreadPoolExecutor(1) as ex:
        fut = ex.submit(model_check, ctx)
        res = [r for rs in pmap(_worker, [(c, ctx.work) for c in split(seeds, PAR * 2) if c], PAR) for r in rs]
        refuted = fut.result()
    res.sort(key=lambda r: r['seed'])
    ctx.register_predicates(PREDICATES)
    obs, owners = [], []
    skipped = {}
    for r in res:
        if 'skip' in r:
            skipped[r['skip']] = skipped.get(r['skip'], 0) + 1
            continue
        if 'exc' in r:
            if r['exc'].startswith('harness:'):
                raise MachineryError(r['exc'])
            ctx.violation({'seed': r['seed'], 'scenario': slim(r['sc'])}, 'recording, load_case, get_val and run_model succeed', r['exc'],
                          'exception from OpenMDAO: ' + r['exc'].split(':')[0], snippet=r['tb'], info={'why': 'exception'})
            continue
        for o, info in r['obs']:
            obs.append(o)
            owners.append((r, info))
    if not obs:
        raise MachineryError('no observations')
    path = ctx.write_json('lc_obs.json', obs)
    cfg = ctx.write_cfg('LoadCaseJudge.cfg', 'INIT JInit\nNEXT JNext\nINVARIANT Export\n')
    tr = ctx.tlc_check('mech/LoadCase', cfg, env={'LC_OBS': path}, timeout=3000, coverage=False, workers=TLC_WORKERS, heap='10g')
    v = {e['tid']: e['v'] for e in tr.exports('EXP')}
    if len(v) != len(obs):
        raise MachineryError('verdicts missing: %d of %d\n%s' % (len(v), len(obs), tr.tail(30)))
    nvars = nfinal = ndet = nmid = 0
    byreq = {}
    seen = set()
    for k, (o, (r, info)) in enumerate(zip(obs, owners)):
        vd = v[k + 1]
        nvars += len(o['vars'])
        kind = info['req'].split(':')[0]
        byreq[kind] = byreq.get(kind, 0) + 1
        if o['final']:
            nfinal += 1
            if vd['determined']:
                ndet += 1
        else:
            nmid += 1
        ctx.note_nontrivial((r['seed'], info['req'], info['case']))
        for b in vd['bad'][:2]:
            key = (r['seed'], info['req'], b['why'])
            if key in seen:
                continue
            seen.add(key)
            var = [x for x in o['vars'] if x['n'] == b['n']][0]
            ctx.violation({'seed': r['seed'], 'requester': info['req'], 'case': info['case'], 'final': info['final'],
                           'variable': b['n'], 'scenario': slim(r['sc'])},
                          'LoadCase.tla: ' + b['why'].split('(')[0] + ' holds', {'variable': var, 'load_case warnings': info['warnings']},
                          b['why'] + ': ' + kind + ' case', info=dict(info, why=b['why']))
    classes = {}
    for clause, _ in ctx.violations:
        classes[clause] = classes.get(clause, 0) + 1
    ctx.impl = len(obs)
    ctx.evaluations = nvars
    ctx.exhaustive = False
    ctx.extra.update({'refuted_on_the_spec': refuted, 'cases_loaded': len(obs), 'variables_judged': nvars, 'final_cases': nfinal,
                      'final_cases_that_determine_the_independents': ndet, 'mid_solve_cases': nmid, 'cases_by_requester': byreq,
                      'skipped': skipped, 'violation_classes': classes})
    for o, (r, info) in list(zip(obs, owners))[:2]:
        ctx.sample({'seed': r['seed'], 'info': info, 'recin': o['recin'][:4], 'recout': o['recout'][:4], 'vars': o['vars'][:3]})
    ctx.rule = ('(a) LoadCase.tla small instance: every subset of recorded names x final / mid-solve x input order x fresh states; '
                '(b) per seed: gen_model (units, src_indices chains, promotion, cycles), six recorder files (problem, driver, root, a '
                'subsystem, root solver, a sub-solver; 35% with random recording_options), first / middle / last case of each file loaded into '
                'a fresh Problem in a random phase (after setup / final_setup / a run with other values); non-trivial = distinct (seed, '
                'requester, case)')
    ctx.assumptions = [
        'serial, SqliteRecorder files, no discrete variables, no auto-IVC sources, no solver scaling (ref/ref0/res_ref: system and '
        'solver cases are then recorded in scaled values - the C17 finding - and would be reported here a second time)',
        'get_val by absolute name, by the promoted name of the model namespace, and from_src=False for inputs; the default read of an '
        'input goes through its source (spec/sys/OMSetGet.tla), so it is judged where the recorded input is consistent with the case: '
        'it equals the view of what the spec says the sources hold after the load (1e-12); from_src=False is judged exactly, always',
        'final case = the live snapshot of inputs and outputs at the record equals the state at the end of the run (bitwise); '
        'run_model is judged (1e-10) for final cases that determine every independent variable (recorded as output, or every '
        'entry written through recorded inputs); mid-solve cases: only the restore is judged',
        'float comparisons are made by the harness (ids of bit-identical vectors, closeness flags); LoadCase.tla decides which law applies',
    ]


if __name__ == '__main__':
    os.environ.setdefault('OPENMDAO_REPORTS', '0')
    r = observe(int(sys.argv[1]), '/verif/.work/c17dev')
    if 'obs' not in r:
        print({k: v for k, v in r.items() if k != 'sc'})
        sys.exit(0)
    for o, info in r['obs']:
        bad = [v for v in o['vars'] if (v['k'] == 'out' and (v['abs'] != v['rec'] or not v['runclose'])) or
               (v['k'] == 'inp' and (v['vec'] != v['rec'] or (v['cons'] and not v['close'])))]
        print(info, 'suspicious:', [(v['n'], v['k'], v['abs'] == v['rec'], v['runclose'], v['cons'], v['close']) for v in bad][:4])
