"""Thin, strict wrapper around TLC.

Everything a check learns from TLC (state counts, coverage, printed exports, verdict) is parsed
from the output of the run that the check itself started.  Any TLC outcome other than a clean
finish or a clean invariant/property violation is a machinery failure (MachineryError, exit 2).
"""
import json
import os
import re
import subprocess
import time

VERIF = os.path.dirname(os.path.dirname(os.path.dirname(os.path.abspath(__file__))))
SPEC = os.path.join(VERIF, 'spec')
import itertools
_META_SEQ = itertools.count()

JAR = '/opt/veriftools/tla/tla2tools.jar:/opt/veriftools/tla/CommunityModules-deps.jar'


class MachineryError(Exception):
    pass


def _libpath():
    return os.pathsep.join(os.path.join(SPEC, d) for d in ('lib', 'mech', 'sys', 'trace'))


class TlcResult:
    def __init__(self, out, rc, wall):
        self.out = out
        self.rc = rc
        self.wall = wall
        m = re.findall(r'(\d+) states generated, (\d+) distinct states found, (\d+) states left', out)
        self.generated = int(m[-1][0]) if m else 0
        self.distinct = int(m[-1][1]) if m else 0
        m = re.search(r'depth of the complete state graph search is (\d+)', out)
        self.depth = int(m.group(1)) if m else 0
        self.finished = 'Model checking completed. No error has been found.' in out or \
            bool(re.search(r'Finished in ', out)) and 'Error:' not in out
        self.violated = re.findall(r'Invariant (\S+) is violated', out) + \
            re.findall(r'Action property (\S+) is violated', out) + \
            re.findall(r'Temporal properties were violated', out)
        self.assume_false = 'Assumption' in out and 'is false' in out
        self.error = 'Error:' in out or rc not in (0, 12, 13)
        self.postcond_false = bool(re.search(r'Postcondition .* violated|POSTCONDITION .* false', out, re.I))

    @property
    def transitions(self):
        # TLC reports generated states (= explored transitions incl. initial states)
        return self.generated

    def exports(self, tag='EXP'):
        """Return the JSON payloads printed by PrintT(<<tag, ToJson(x)>>)."""
        res = []
        pat = re.compile(r'<<"%s", "((?:[^"\\]|\\.)*)">>' % re.escape(tag))
        for m in pat.finditer(self.out):
            s = m.group(1)
            # TLA+ string escape -> python
            s = s.replace('\\"', '"').replace('\\\\', '\\')
            try:
                res.append(json.loads(s))
            except ValueError as e:
                raise MachineryError('unparsable export %r: %s' % (s[:200], e))
        return res

    def coverage(self):
        """Parse -coverage 1 output: {action_name: (distinct, total)}"""
        cov = {}
        for m in re.finditer(r'<(\w+) line \d+, col \d+ to line \d+, col \d+ of module (\w+)>: (\d+):(\d+)', self.out):
            name, mod, d, t = m.group(1), m.group(2), int(m.group(3)), int(m.group(4))
            old = cov.get(name, (0, 0))
            cov[name] = (max(old[0], d), max(old[1], t))
        return cov

    def tail(self, n=40):
        return '\n'.join(self.out.splitlines()[-n:])


def run(module, cfg, workdir, workers=16, timeout=900, coverage=False, simulate=None,
        depth=None, seed=None, env=None, extra=None, deadlock=False, dfs=False, heap='8g'):
    """Run TLC on spec module (path relative to SPEC or absolute) with cfg (same rule)."""
    mod = module if os.path.isabs(module) else os.path.join(SPEC, module)
    if not mod.endswith('.tla'):
        mod += '.tla'
    cfgp = cfg if os.path.isabs(cfg) else os.path.join(SPEC, cfg)
    os.makedirs(workdir, exist_ok=True)
    # (unique also for runs started by several threads of one process within the same millisecond)
    meta = os.path.join(workdir, 'meta-%d-%d-%d' % (os.getpid(), int(time.time() * 1000) % 100000000, next(_META_SEQ)))
    jopts = ['-XX:+UseParallelGC', '-Xmx' + heap, '-DTLA-Library=' + _libpath(), '-Djava.io.tmpdir=' + workdir]
    if dfs:
        jopts.append('-Dtlc2.tool.queue.IStateQueue=StateDeque')
    cmd = ['java'] + jopts + ['-cp', JAR, 'tlc2.TLC', '-workers', str(workers), '-metadir', meta,
                              '-noGenerateSpecTE', '-config', cfgp]
    if not deadlock:
        cmd.append('-deadlock')       # -deadlock DISABLES deadlock checking
    if coverage:
        cmd += ['-coverage', '1']
    if simulate:
        cmd += ['-simulate', simulate]
        if depth:
            cmd += ['-depth', str(depth)]
    if seed is not None:
        cmd += ['-seed', str(seed)]
    if extra:
        cmd += list(extra)
    cmd.append(mod)
    e = dict(os.environ)
    e.pop('JAVA_TOOL_OPTIONS', None)
    if env:
        e.update(env)
    t0 = time.time()
    try:
        p = subprocess.run(cmd, cwd=os.path.dirname(mod), env=e, stdout=subprocess.PIPE,
                           stderr=subprocess.STDOUT, timeout=timeout, text=True, errors='replace')
        out, rc = p.stdout, p.returncode
    except subprocess.TimeoutExpired as ex:
        out = (ex.stdout or b'').decode('utf8', 'replace') if isinstance(ex.stdout, bytes) else (ex.stdout or '')
        if simulate:
            rc = 0   # simulation is open-ended; a timeout just ends it
            out += '\nFinished in (timeout)\n'
        else:
            raise MachineryError('TLC timeout after %ss on %s' % (timeout, module))
    finally:
        subprocess.run(['rm', '-rf', meta])
    r = TlcResult(out, rc, time.time() - t0)
    return r


def check(module, cfg, workdir, **kw):
    """Run and demand a clean pass; returns TlcResult.  Spec-level violation => MachineryError,
    because on the *spec* the properties are theorems of the design: a failure there means the spec
    (our own artefact) is wrong, which must never be reported as a violation of the code."""
    r = run(module, cfg, workdir, **kw)
    if r.violated or r.assume_false or r.error or not r.finished:
        raise MachineryError('TLC did not pass on %s / %s:\n%s' % (module, cfg, r.tail(60)))
    return r


def tla_str(s):
    return '"' + s.replace('\\', '\\\\').replace('"', '\\"') + '"'


def to_tla(v):
    """Python value -> TLA+ literal (ints, bools, str, list->sequence, dict->record, set->set)."""
    if isinstance(v, bool):
        return 'TRUE' if v else 'FALSE'
    if isinstance(v, int):
        if abs(v) >= 2 ** 31:
            raise MachineryError('integer %d exceeds TLC range' % v)
        return str(v)
    if isinstance(v, str):
        return tla_str(v)
    if isinstance(v, (list, tuple)):
        return '<<' + ', '.join(to_tla(x) for x in v) + '>>'
    if isinstance(v, (set, frozenset)):
        return '{' + ', '.join(sorted(to_tla(x) for x in v)) + '}'
    if isinstance(v, dict):
        if not v:
            return '<<>>'
        return '[' + ', '.join('%s |-> %s' % (k, to_tla(x)) for k, x in v.items()) + ']'
    if v is None:
        return '"none"'
    raise MachineryError('cannot express %r in TLA+' % (v,))
