"""Small helpers shared by the drivers."""
import os
import multiprocessing as mp


def quiet():
    """Silence warnings (OpenMDAO installs its own 'always' filters at import; ours go in front)."""
    import warnings
    import openmdao.api  # noqa: F401  (make sure OpenMDAO's filters are installed first)
    import numpy as np
    warnings.filterwarnings('ignore')
    np.seterr(all='ignore')


def pmap(fn, chunks, nproc=None):
    """Run fn over chunks in a fork pool (the editable install in /repo is imported in each worker)."""
    nproc = nproc or min(16, os.cpu_count() or 1)
    chunks = [c for c in chunks if c]
    if not chunks:
        return []
    with mp.get_context('fork').Pool(min(nproc, len(chunks))) as pool:
        return pool.map(fn, chunks)


def split(items, nchunks):
    return [items[i::nchunks] for i in range(nchunks)]
