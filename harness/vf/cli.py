"""./check <Cnn> [--tier quick|thorough] [--replay file] [--selftest]"""
import importlib
import sys

from .core import main_for


def main():
    if len(sys.argv) < 2:
        print('usage: check <Cnn> [--tier quick|thorough] [--replay file]')
        return 2
    pid = sys.argv[1]
    try:
        mod = importlib.import_module('vf.drivers.%s' % pid.lower())
    except ImportError as e:
        print('MACHINERY-ERROR no driver for %s: %s' % (pid, e))
        return 2
    return main_for(pid, mod.run, sys.argv[2:])


if __name__ == '__main__':
    sys.exit(main())
