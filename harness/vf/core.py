"""Check context: work directory, TLC access, evidence, violations, known findings."""
import hashlib
import json
import os
import shutil
import sys
import time
import traceback

from . import tlc as _tlc
from .tlc import MachineryError, VERIF

FINDINGS_FILE = os.path.join(VERIF, 'known_findings.json')


def _jsonable(o):
    import fractions
    try:
        import numpy as np
    except Exception:       # pragma: no cover
        np = None
    if isinstance(o, fractions.Fraction):
        return [o.numerator, o.denominator]
    if np is not None:
        if isinstance(o, np.ndarray):
            return o.tolist()
        if isinstance(o, (np.integer,)):
            return int(o)
        if isinstance(o, (np.floating,)):
            return float(o)
        if isinstance(o, (np.bool_,)):
            return bool(o)
        if isinstance(o, (np.complexfloating,)):
            return [float(o.real), float(o.imag)]
    if isinstance(o, complex):
        return [o.real, o.imag]
    if isinstance(o, (set, frozenset)):
        return sorted(_jsonable(x) for x in o)
    if isinstance(o, (slice,)):
        return 'slice(%r,%r,%r)' % (o.start, o.stop, o.step)
    if o is Ellipsis:
        return '...'
    return repr(o)


def dumps(o, **kw):
    return json.dumps(o, default=_jsonable, **kw)


class Ctx:
    def __init__(self, pid, tier='quick', seed=0, level='model_checking'):
        self.pid = pid
        self.tier = tier
        self.seed = seed
        self.level = level
        self.t0 = time.time()
        self.work = os.path.join(VERIF, '.work', '%s-%d' % (pid, os.getpid()))
        shutil.rmtree(self.work, ignore_errors=True)
        os.makedirs(self.work)
        # OpenMDAO writes its per-problem output directories (<name>_out) under OPENMDAO_WORKDIR
        os.environ['OPENMDAO_WORKDIR'] = self.work
        # replay files describe the violations of the latest run only
        shutil.rmtree(os.path.join(VERIF, 'replays', pid), ignore_errors=True)
        self.states = 0
        self.transitions = 0
        self.tlc_runs = []
        self.impl = 0               # scenarios / behaviours / traces bound to the implementation
        self.evaluations = 0
        self.nontrivial = set()
        self.samples = []
        self.rule = ''
        self.exhaustive = None
        self.assumptions = []
        self.extra = {}
        self.violations = []        # (signature, replay path)
        self.known_hits = {}        # finding key -> count
        self.coverage_actions = {}
        with open(FINDINGS_FILE) as f:
            self.findings = json.load(f)
        self._preds = {}

    # ---- TLC ---------------------------------------------------------------------------------
    def tlc_check(self, module, cfg, count=True, **kw):
        kw.setdefault('coverage', True)
        r = _tlc.check(module, cfg, self.work, **kw)
        if count:
            self.states += r.distinct
            self.transitions += r.generated
        cov = r.coverage()
        self.coverage_actions.update({k: v[1] for k, v in cov.items()})
        self.tlc_runs.append({'module': os.path.basename(module), 'cfg': os.path.basename(cfg),
                              'distinct': r.distinct, 'generated': r.generated, 'depth': r.depth,
                              'wall_s': round(r.wall, 2)})
        return r

    def tlc_run(self, module, cfg, **kw):
        r = _tlc.run(module, cfg, self.work, **kw)
        self.tlc_runs.append({'module': os.path.basename(module), 'cfg': os.path.basename(cfg),
                              'distinct': r.distinct, 'generated': r.generated, 'depth': r.depth,
                              'wall_s': round(r.wall, 2)})
        return r

    def require_actions(self, names):
        """Vacuity guard: every named action must have been taken at least once."""
        missing = [n for n in names if self.coverage_actions.get(n, 0) == 0]
        if missing:
            raise MachineryError('vacuous: actions never taken: %s (have %s)' % (missing, self.coverage_actions))

    def write_cfg(self, name, text):
        p = os.path.join(self.work, name)
        with open(p, 'w') as f:
            f.write(text)
        return p

    def write_json(self, name, obj):
        p = os.path.join(self.work, name)
        with open(p, 'w') as f:
            f.write(dumps(obj))
        return p

    # ---- bookkeeping -------------------------------------------------------------------------
    def sample(self, s, limit=3):
        if len(self.samples) < limit:
            self.samples.append(json.loads(dumps(s)))

    def note_nontrivial(self, key):
        self.nontrivial.add(key if isinstance(key, (str, int, tuple)) else dumps(key, sort_keys=True))

    # ---- violations --------------------------------------------------------------------------
    def register_predicates(self, preds):
        """preds: {finding_id: callable(scenario, info) -> bool} for known_findings entries."""
        self._preds.update(preds)

    def violation(self, scenario, expected, observed, clause, snippet=None, info=None):
        """Report a disagreement between the spec's expectation and the implementation."""
        for f in self.findings:
            if f.get('property') != self.pid or f.get('status') != 'known':
                continue
            pred = self._preds.get(f.get('id'))
            if pred is not None:
                try:
                    hit = bool(pred(scenario, info or {'clause': clause, 'observed': observed}))
                except Exception:
                    hit = False
                if hit:
                    self.known_hits[f['id']] = self.known_hits.get(f['id'], 0) + 1
                    return 'known'
        rec = {'property': self.pid, 'scenario': scenario, 'expected': expected, 'observed': observed,
               'clause': clause, 'snippet': snippet}
        body = dumps(rec, sort_keys=True, indent=1)
        h = hashlib.sha1(dumps(scenario, sort_keys=True).encode()).hexdigest()[:16]
        d = os.path.join(VERIF, 'replays', self.pid)
        os.makedirs(d, exist_ok=True)
        path = os.path.join(d, h + '.json')
        if len(self.violations) < 10:
            with open(path, 'w') as fh:
                fh.write(body)
        self.violations.append((clause, path))
        self.nontrivial.add('violation:' + h)          # a violating scenario is not a trivial one
        if len(self.violations) <= 5:
            print('VIOLATION property=%s replay=%s' % (self.pid, path))
            print('  clause: %s' % clause)
            print('  scenario: %s' % dumps(scenario)[:600])
            print('  expected: %s' % dumps(expected)[:400])
            print('  observed: %s' % dumps(observed)[:400])
            sys.stdout.flush()
        return 'violation'

    # ---- finish ------------------------------------------------------------------------------
    def finish(self):
        for f in self.findings:
            if f.get('property') == self.pid and f.get('status') == 'known' and self.known_hits.get(f['id']):
                print('KNOWN-FINDING: property=%s %s [%s; %d scenario(s) in this run]' %
                      (self.pid, f['what'], f['id'], self.known_hits[f['id']]))
        cov = {
            'states': int(self.states), 'transitions': int(self.transitions),
            'traces_validated_against_impl': int(self.impl),
            'evaluations': int(max(self.evaluations, self.impl)),
            'distinct_nontrivial': len(self.nontrivial),
            'rule': self.rule,
            'samples': self.samples if self.samples else [],
            'tlc_runs': self.tlc_runs,
            'action_coverage': self.coverage_actions,
            'known_finding_hits': self.known_hits,
        }
        if self.exhaustive is not None:
            cov['exhaustive'] = bool(self.exhaustive)
        cov.update(self.extra)
        ev = {'property_id': self.pid, 'tier': self.tier, 'seed': int(self.seed), 'level': self.level,
              'coverage': cov, 'assumptions': self.assumptions, 'wall_s': round(time.time() - self.t0, 2),
              'violations': len(self.violations)}
        if not cov['samples']:
            raise MachineryError('no samples recorded')
        try:
            import jsonschema
            with open('/root/.vp/EVIDENCE.schema.json') as fh:
                schema = json.load(fh)
            try:
                jsonschema.validate(json.loads(dumps(ev)), schema)
            except jsonschema.ValidationError as e:
                if not self.violations:
                    raise
                # a run that found violations must report them even when it covered too little to describe itself
                print('NOTE evidence record incomplete (%s); violations are reported regardless' % e.message)
        except ImportError:
            pass
        except OSError:
            pass
        os.makedirs(os.path.join(VERIF, 'evidence'), exist_ok=True)
        with open(os.path.join(VERIF, 'evidence', self.pid + '.json'), 'w') as fh:
            fh.write(dumps(ev, indent=1))
        shutil.rmtree(self.work, ignore_errors=True)
        try:
            os.rmdir(os.path.join(VERIF, '.work'))
        except OSError:
            pass
        print('%s tier=%s states=%d impl_bound=%d nontrivial=%d violations=%d known=%s wall=%.1fs' % (
            self.pid, self.tier, self.states, self.impl, len(self.nontrivial), len(self.violations),
            dict(self.known_hits), time.time() - self.t0))
        return 1 if self.violations else 0

    def cleanup(self):
        shutil.rmtree(self.work, ignore_errors=True)


def main_for(pid, run, argv=None):
    import argparse
    ap = argparse.ArgumentParser()
    ap.add_argument('--tier', default=os.environ.get('VERIF_TIER', 'quick'))
    ap.add_argument('--replay', default=None)
    ap.add_argument('--selftest', action='store_true')
    a = ap.parse_args(argv)
    seed = int(os.environ.get('VERIF_SEED', '0') or 0)
    ctx = Ctx(pid, tier=a.tier, seed=seed)
    ctx.replay = a.replay
    ctx.selftest = a.selftest
    try:
        run(ctx)
        return ctx.finish()
    except MachineryError as e:
        print('MACHINERY-ERROR %s: %s' % (pid, e))
        ctx.cleanup()
        return 2
    except Exception:
        traceback.print_exc()
        print('MACHINERY-ERROR %s: unexpected exception' % pid)
        ctx.cleanup()
        return 2
