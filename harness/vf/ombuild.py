"""Build a real om.Problem from a model description (see modelgen.py)."""
from fractions import Fraction as F

import numpy as np

from .modelgen import fr, term_to_py


def fl(x):
    return float(fr(x))


def _mat(A):
    return np.array([[fl(a) for a in row] for row in A], dtype=float)


def make_classes():
    import openmdao.api as om
    import scipy.sparse as sp

    def _setup_io(self):
        c, md = self.options['comp'], self.options['md']
        for iid in c['ins']:
            i = md['ins'][iid]
            kw = {}
            if i['units']:
                kw['units'] = i['units']
            self.add_input(i['name'], val=np.zeros(i['shape']), **kw)
        for oid in c['outs']:
            o = md['outs'][oid]
            kw = {}
            for k in ('units', 'lower', 'upper'):
                if o.get(k) is not None:
                    kw[k] = o[k]
            for k in ('ref', 'ref0', 'res_ref'):
                if o.get(k) is not None and not md.get('scale_api'):
                    v = o[k]
                    kw[k] = np.array([fl(x) for x in v['arr']]).reshape(o['shape']) if isinstance(v, dict) else fl(v)
            self.add_output(o['name'], val=np.array([fl(v) for v in o['val']]).reshape(o['shape']), **kw)

    def _blocks(self):
        c, md = self.options['comp'], self.options['md']
        for ko, oid in enumerate(c['outs']):
            for ki, iid in enumerate(c['ins']):
                yield ko, ki, md['outs'][oid]['name'], md['ins'][iid]['name'], _mat(c['A'][ko][ki]), c['storage'][ko][ki]

    def _declare(self, sign=1.0):
        """declare partials of outputs (or residuals) wrt inputs per storage kind"""
        self._jvals = {}
        for ko, ki, on, inn, A, st in _blocks(self):
            A = sign * A
            if not A.any() and st not in ('fd', 'cs', 'dense'):
                continue
            if st == 'dense' or st == 'matfree':
                self.declare_partials(on, inn)
                self._jvals[on, inn] = A
            elif st in ('rowscols', 'rowscols_dup'):
                r, cc = np.nonzero(A)
                self.declare_partials(on, inn, rows=r, cols=cc)
                self._jvals[on, inn] = A[r, cc]
            elif st == 'diag':
                self.declare_partials(on, inn, diagonal=True)
                self._jvals[on, inn] = np.diag(A).copy()
            elif st in ('coo', 'csr', 'csc'):
                r, cc = np.nonzero(A)
                v = A[r, cc]
                if st == 'coo' and len(r):
                    # a duplicated entry whose two parts sum to the true value
                    r = np.concatenate([r, r[:1]])
                    cc = np.concatenate([cc, cc[:1]])
                    v = np.concatenate([v, [1.0]])
                    v[0] -= 1.0
                m = sp.coo_matrix((v, (r, cc)), shape=A.shape)
                m = {'coo': m, 'csr': sp.csr_matrix(A), 'csc': sp.csc_matrix(A)}[st]
                self.declare_partials(on, inn, val=m.copy())
                self._jvals[on, inn] = m
            elif st in ('fd', 'cs'):
                self.declare_partials(on, inn, method=st, step=2.0 ** -10 if st == 'fd' else None)
            else:
                raise ValueError(st)

    class AffineComp(om.ExplicitComponent):
        def initialize(self):
            self.options.declare('comp', recordable=False)
            self.options.declare('md', recordable=False)

        def setup(self):
            _setup_io(self)
            _declare(self)

        def compute(self, inputs, outputs):
            c, md = self.options['comp'], self.options['md']
            for ko, oid in enumerate(c['outs']):
                o = md['outs'][oid]
                y = np.array([fl(b) for b in c['b'][ko]], dtype=inputs.asarray().dtype)
                for ki, iid in enumerate(c['ins']):
                    y = y + _mat(c['A'][ko][ki]) @ inputs[md['ins'][iid]['name']].ravel()
                outputs[o['name']] = y.reshape(o['shape'])

        def compute_partials(self, inputs, partials):
            for key, v in self._jvals.items():
                partials[key] = v.copy()

    class MatFreeAffineComp(om.ExplicitComponent):
        """separate class: a class overriding compute_jacvec_product is matrix-free for every instance"""
        def initialize(self):
            self.options.declare('comp', recordable=False)
            self.options.declare('md', recordable=False)

        def setup(self):
            _setup_io(self)

        compute = AffineComp.compute

        def compute_jacvec_product(self, inputs, d_inputs, d_outputs, mode):
            for ko, ki, on, inn, A, st in _blocks(self):
                if on in d_outputs and inn in d_inputs:
                    if mode == 'fwd':
                        d_outputs[on] += (A @ d_inputs[inn].ravel()).reshape(d_outputs[on].shape)
                    else:
                        d_inputs[inn] += (A.T @ d_outputs[on].ravel()).reshape(d_inputs[inn].shape)

    class ImplicitAffineComp(om.ImplicitComponent):
        """residual r = d*y - (A x + b)"""
        def initialize(self):
            self.options.declare('comp', recordable=False)
            self.options.declare('md', recordable=False)

        def setup(self):
            _setup_io(self)
            _declare(self, sign=-1.0)
            c, md = self.options['comp'], self.options['md']
            for ko, oid in enumerate(c['outs']):
                o = md['outs'][oid]
                n = int(np.prod(o['shape']))
                self.declare_partials(o['name'], o['name'], rows=np.arange(n), cols=np.arange(n),
                                      val=np.array([fl(d) for d in c['d'][ko]]))

        def _rhs(self, inputs, ko):
            c, md = self.options['comp'], self.options['md']
            y = np.array([fl(b) for b in c['b'][ko]], dtype=inputs.asarray().dtype)
            for ki, iid in enumerate(c['ins']):
                y = y + _mat(c['A'][ko][ki]) @ inputs[md['ins'][iid]['name']].ravel()
            return y

        def apply_nonlinear(self, inputs, outputs, residuals):
            c, md = self.options['comp'], self.options['md']
            for ko, oid in enumerate(c['outs']):
                o = md['outs'][oid]
                d = np.array([fl(x) for x in c['d'][ko]])
                residuals[o['name']] = (d * outputs[o['name']].ravel() - self._rhs(inputs, ko)).reshape(o['shape'])

        def solve_nonlinear(self, inputs, outputs):
            c, md = self.options['comp'], self.options['md']
            for ko, oid in enumerate(c['outs']):
                o = md['outs'][oid]
                d = np.array([fl(x) for x in c['d'][ko]])
                outputs[o['name']] = (self._rhs(inputs, ko) / d).reshape(o['shape'])

        def linearize(self, inputs, outputs, partials):
            for key, v in self._jvals.items():
                partials[key] = v.copy()

        def solve_linear(self, d_outputs, d_residuals, mode):
            c, md = self.options['comp'], self.options['md']
            for ko, oid in enumerate(c['outs']):
                o = md['outs'][oid]
                d = np.array([fl(x) for x in c['d'][ko]]).reshape(o['shape'])
                if mode == 'fwd':
                    d_outputs[o['name']] = d_residuals[o['name']] / d
                else:
                    d_residuals[o['name']] = d_outputs[o['name']] / d

    def _bil_setup(self):
        _setup_io(self)

    class _BilBase(om.ImplicitComponent):
        """two states of equal size:  r0 = d0*y0 - (A0 x + b0),  r1 = y0*y1 - (A1 x + b1)  (elementwise product);
        the linearisation depends on the state"""
        def initialize(self):
            self.options.declare('comp', recordable=False)
            self.options.declare('md', recordable=False)

        def _names(self):
            c, md = self.options['comp'], self.options['md']
            return md['outs'][c['outs'][0]]['name'], md['outs'][c['outs'][1]]['name']

        _rhs = ImplicitAffineComp._rhs

        def apply_nonlinear(self, inputs, outputs, residuals):
            c = self.options['comp']
            n0, n1 = self._names()
            d0 = np.array([fl(x) for x in c['d'][0]])
            residuals[n0] = d0 * outputs[n0] - self._rhs(inputs, 0)
            residuals[n1] = outputs[n0] * outputs[n1] - self._rhs(inputs, 1)

        def solve_nonlinear(self, inputs, outputs):
            c = self.options['comp']
            n0, n1 = self._names()
            d0 = np.array([fl(x) for x in c['d'][0]])
            outputs[n0] = self._rhs(inputs, 0) / d0
            outputs[n1] = self._rhs(inputs, 1) / outputs[n0]

        def solve_linear(self, d_outputs, d_residuals, mode):
            c = self.options['comp']
            n0, n1 = self._names()
            d0 = np.array([fl(x) for x in c['d'][0]])
            # the state at the linearisation point, cached by linearize() (self._outputs is in scaled units here)
            y0, y1 = self._lin_state
            if mode == 'fwd':
                d_outputs[n0] = d_residuals[n0] / d0
                d_outputs[n1] = (d_residuals[n1] - y1 * d_outputs[n0]) / y0
            else:
                d_residuals[n1] = d_outputs[n1] / y0
                d_residuals[n0] = (d_outputs[n0] - y1 * d_residuals[n1]) / d0

    class BilinearComp(_BilBase):
        def setup(self):
            _setup_io(self)
            _declare(self, sign=-1.0)
            n0, n1 = self._names()
            n = int(np.prod(self.options['md']['outs'][self.options['comp']['outs'][0]]['shape']))
            ar = np.arange(n)
            self.declare_partials(n0, n0, rows=ar, cols=ar, val=np.array([fl(x) for x in self.options['comp']['d'][0]]))
            self.declare_partials(n1, n0, rows=ar, cols=ar)
            self.declare_partials(n1, n1, rows=ar, cols=ar)

        def linearize(self, inputs, outputs, partials):
            n0, n1 = self._names()
            self._lin_state = (outputs[n0].copy(), outputs[n1].copy())
            for key, v in self._jvals.items():
                partials[key] = v.copy()
            partials[n1, n0] = outputs[n1].ravel().copy()
            partials[n1, n1] = outputs[n0].ravel().copy()

    class MatFreeBilinearComp(_BilBase):
        def setup(self):
            _setup_io(self)

        def linearize(self, inputs, outputs, partials):
            n0, n1 = self._names()
            self._lin_state = (outputs[n0].copy(), outputs[n1].copy())

        def apply_linear(self, inputs, outputs, d_inputs, d_outputs, d_residuals, mode):
            c, md = self.options['comp'], self.options['md']
            n0, n1 = self._names()
            d0 = np.array([fl(x) for x in c['d'][0]])
            y0, y1 = outputs[n0], outputs[n1]
            if mode == 'fwd':
                if n0 in d_residuals and n0 in d_outputs:
                    d_residuals[n0] += d0 * d_outputs[n0]
                if n1 in d_residuals:
                    if n0 in d_outputs:
                        d_residuals[n1] += y1 * d_outputs[n0]
                    if n1 in d_outputs:
                        d_residuals[n1] += y0 * d_outputs[n1]
            else:
                if n0 in d_outputs:
                    if n0 in d_residuals:
                        d_outputs[n0] += d0 * d_residuals[n0]
                    if n1 in d_residuals:
                        d_outputs[n0] += y1 * d_residuals[n1]
                if n1 in d_outputs and n1 in d_residuals:
                    d_outputs[n1] += y0 * d_residuals[n1]
            for ko, ki, on, inn, A, st in _blocks(self):
                if on in d_residuals and inn in d_inputs:
                    if mode == 'fwd':
                        d_residuals[on] -= (A @ d_inputs[inn].ravel()).reshape(d_residuals[on].shape)
                    else:
                        d_inputs[inn] -= (A.T @ d_residuals[on].ravel()).reshape(d_inputs[inn].shape)

    return AffineComp, MatFreeAffineComp, ImplicitAffineComp, BilinearComp, MatFreeBilinearComp


_CLS = None


def classes():
    global _CLS
    if _CLS is None:
        _CLS = make_classes()
    return _CLS


def comp_path(c):
    return (c['group'] + '.' if c['group'] else '') + c['name']


def out_path(md, oid):
    o = md['outs'][oid]
    c = md['comps'][o['comp']]
    if c['kind'] == 'ivc' and md.get('split_ivc'):
        # one IndepVarComp per independent variable (components upstream of the design variables then exist: C24)
        return 'ivc_%s.%s' % (o['name'], o['name'])
    return comp_path(c) + '.' + o['name']


def in_path(md, iid):
    i = md['ins'][iid]
    return comp_path(md['comps'][i['comp']]) + '.' + i['name']


def lca(a, b):
    pa, pb = a.split('.')[:-2], b.split('.')[:-2]     # group parts of 'g1.g2.c.var'
    k = 0
    while k < len(pa) and k < len(pb) and pa[k] == pb[k]:
        k += 1
    return '.'.join(pa[:k])


def rel(path, base):
    return path[len(base) + 1:] if base else path


def make_solver(spec, kind):
    import openmdao.api as om
    if spec is None:
        return None
    name = spec['name']
    o = dict(spec.get('opts', {}))
    if kind == 'nl':
        if name == 'runonce':
            return om.NonlinearRunOnce()
        base = dict(iprint=-1, maxiter=400, atol=1e-14, rtol=1e-14)
        base.update(o)
        if name == 'nlbgs':
            return om.NonlinearBlockGS(**base)
        if name == 'nlbj':
            return om.NonlinearBlockJac(**base)
        if name == 'newton':
            base.setdefault('solve_subsystems', False)
            base['maxiter'] = min(base['maxiter'], 30)
            return om.NewtonSolver(**base)
        if name == 'broyden':
            base['maxiter'] = min(base['maxiter'], 60)
            return om.BroydenSolver(**base)
    else:
        if name == 'runonce':
            return om.LinearRunOnce()
        if name == 'direct':
            return om.DirectSolver(**o)
        base = dict(iprint=-1, maxiter=400, atol=1e-14, rtol=1e-14)
        base.update(o)
        if name == 'lnbgs':
            return om.LinearBlockGS(**base)
        if name == 'lnbj':
            return om.LinearBlockJac(**base)
        if name == 'krylov':
            base['maxiter'] = 200
            base['atol'] = 1e-10
            base['rtol'] = 1e-12
            return om.ScipyKrylov(**base)
    raise ValueError(spec)


def build(md, cfg=None, setup=True):
    """cfg: {'mode': 'fwd'|'rev'|'auto', 'force_alloc_complex': bool}"""
    import openmdao.api as om
    Aff, MF, Imp, Bil, MFBil = classes()
    cfg = cfg or {}
    p = om.Problem(**cfg.get('problem_opts', {}))
    groups = {'': p.model}

    def group(gp):
        if gp not in groups:
            parent, _, name = gp.rpartition('.')
            groups[gp] = group(parent).add_subsystem(name, om.Group())
        return groups[gp]
    # components, in declared order (md['order'] may permute them: C32)
    order = md.get('order') or [c['id'] for c in md['comps']]
    for cid in order:
        c = md['comps'][cid]
        g = group(c['group'])
        if c['kind'] == 'ivc' and md.get('split_ivc'):
            for oid in c['outs']:
                o = md['outs'][oid]
                kw = {'units': o['units']} if o['units'] else {}
                one = om.IndepVarComp()
                one.add_output(o['name'], val=np.array([fl(v) for v in o['val']]).reshape(o['shape']), **kw)
                g.add_subsystem('ivc_%s' % o['name'], one)
        elif c['kind'] == 'ivc':
            ivc = om.IndepVarComp()
            for oid in c['outs']:
                o = md['outs'][oid]
                kw = {'units': o['units']} if o['units'] else {}
                for k in ('ref', 'ref0', 'res_ref'):
                    if o.get(k) is not None and not md.get('scale_api'):
                        v = o[k]
                        kw[k] = np.array([fl(x) for x in v['arr']]).reshape(o['shape']) if isinstance(v, dict) else fl(v)
                ivc.add_output(o['name'], val=np.array([fl(v) for v in o['val']]).reshape(o['shape']), **kw)
            g.add_subsystem(c['name'], ivc)
        elif c['kind'] == 'impl':
            g.add_subsystem(c['name'], Imp(comp=c, md=md))
        elif c['kind'] == 'bil':
            g.add_subsystem(c['name'], (MFBil if c.get('mf') else Bil)(comp=c, md=md))
        else:
            mf = any(s == 'matfree' for row in c['storage'] for s in row)
            g.add_subsystem(c['name'], (MF if mf else Aff)(comp=c, md=md))
    if md.get('scale_api'):
        # solver scaling given after declaration
        for o in md['outs']:
            kw = {}
            for k in ('ref', 'ref0', 'res_ref'):
                if o.get(k) is not None:
                    v = o[k]
                    kw[k] = np.array([fl(x) for x in v['arr']]).reshape(o['shape']) if isinstance(v, dict) else fl(v)
            if kw:
                p.model.set_output_solver_options(out_path(md, o['id']), **kw)
    # connections
    shared = {}
    for i in md['ins']:
        how = i.get('how', 'connect')
        if how == 'connect':
            s, t = out_path(md, i['src']), in_path(md, i['id'])
            base = lca(s, t)
            kw = {}
            if i['chain']:
                link = i['chain'][0]
                kw['src_indices'] = term_to_py(link['idx'])
                kw['flat_src_indices'] = bool(link['flat'])
            groups[base].connect(rel(s, base), rel(t, base), **kw)
        elif how == 'promote':
            _realise_promote(md, i, groups)
        elif how == 'promote_shared':
            shared.setdefault((i['comp'], i['share']['id']), []).append(i)
        elif how == 'auto':
            pass
        else:
            raise ValueError(how)
    for (cid, sid), members in shared.items():
        c = md['comps'][cid]
        g = group(c['group'])
        sh = members[0]['share']
        g.promotes(c['name'], inputs=[(m['name'], m['share']['alias']) for m in members],
                   src_indices=term_to_py(sh['term']), flat_src_indices=True)
        for m in members:
            s_ = out_path(md, m['src'])
            tprom = (c['group'] + '.' if c['group'] else '') + m['share']['alias']
            base = _lca_groups(s_, tprom)
            groups[base].connect(rel(s_, base), rel(tprom, base))
    for path, sv in md.get('solvers', {}).items():
        g = groups[path]
        nl = make_solver(sv.get('nl'), 'nl')
        ln = make_solver(sv.get('ln'), 'ln')
        if nl is not None:
            g.nonlinear_solver = nl
        if ln is not None:
            g.linear_solver = ln
            if md.get('jac') and (sv.get('ln') or {}).get('opts', {}).get('assemble_jac'):
                g.options['assembled_jac_type'] = md['jac']
    for dv in md.get('desvars', []):
        kw = {k: v for k, v in dv.items() if k not in ('name', 'oid', 'indices_term', 'flat_indices') and v is not None}
        if dv.get('indices_term') is not None:
            kw['indices'] = term_to_py(dv['indices_term'])
            kw['flat_indices'] = bool(dv.get('flat_indices', False))
        p.model.add_design_var(dv['name'] or out_path(md, dv['oid']), **_fl(kw))
    for rs in md.get('responses', []):
        kw = {k: v for k, v in rs.items() if k not in ('name', 'oid', 'indices_term', 'flat_indices', 'type') and v is not None}
        if rs.get('indices_term') is not None:
            kw['indices'] = term_to_py(rs['indices_term'])
            kw['flat_indices'] = bool(rs.get('flat_indices', False))
        if rs.get('type') == 'obj':
            kw.pop('indices', None)
            p.model.add_objective(rs['name'] or out_path(md, rs['oid']), **_fl(kw))
        else:
            p.model.add_constraint(rs['name'] or out_path(md, rs['oid']), **_fl(kw))
    if cfg.get('coloring') and md.get('desvars') and md.get('responses'):
        # simultaneous-derivative coloring of the totals (dynamic: computed at the first compute_totals)
        p.driver = om.ScipyOptimizeDriver(optimizer='SLSQP')
        p.driver.declare_coloring(show_summary=False, min_improve_pct=0., direct=(cfg['coloring'] != 'subst'),
                                  num_full_jacs=2, randomize_seeds=bool(cfg.get('randomize_seeds')))
    if cfg.get('driver') is not None:
        p.driver = cfg['driver']
    if setup:
        p.setup(mode=cfg.get('mode', 'auto'), force_alloc_complex=bool(cfg.get('force_alloc_complex', False)))
    return p


def _fl(kw):
    out = {}
    for k, v in kw.items():
        if isinstance(v, list) and len(v) == 2 and all(isinstance(x, int) for x in v) and k in ('scaler', 'adder', 'ref', 'ref0', 'lower', 'upper', 'equals'):
            out[k] = fl(v)
        else:
            out[k] = v
    return out


def _realise_promote(md, i, groups):
    """input promoted upward through `i['plevels']` group levels (each optionally with src_indices), then connected
    at the group where the promotion ends.  i['chain'] = [connect link (optional)] + promote links outer->inner."""
    t = in_path(md, i['id'])
    parts = t.split('.')
    var = parts[-1]
    comp = parts[-2]
    gparts = parts[:-2]
    pl = i['plevels']                      # list (inner -> outer) of {'link': index link or None, 'alias': name}
    name = var
    sub = comp
    for lvl, pinfo in enumerate(pl):
        gpath = '.'.join(gparts[:len(gparts) - lvl])
        g = groups[gpath]
        alias = pinfo['alias']
        kw = {}
        if pinfo.get('link') is not None:
            link = pinfo['link']
            kw['src_indices'] = term_to_py(link['idx'])
            kw['flat_src_indices'] = bool(link['flat'])
            kw['src_shape'] = tuple(link['shape'])
        g.promotes(sub, inputs=[(name, alias) if alias != name else name], **kw)
        name = alias
        sub = gparts[len(gparts) - lvl - 1] if lvl < len(gparts) else None
    top = '.'.join(gparts[:len(gparts) - (len(pl) - 1)])
    if i.get('psrc') == 'auto':
        return
    s = out_path(md, i['src'])
    tprom = (top + '.' if top else '') + name
    base = _lca_groups(s, tprom)
    kw = {}
    if i.get('clink') is not None:
        link = i['clink']
        kw['src_indices'] = term_to_py(link['idx'])
        kw['flat_src_indices'] = bool(link['flat'])
    groups[base].connect(rel(s, base), rel(tprom, base), **kw)


def _lca_groups(srcvar, tgtprom):
    pa = srcvar.split('.')[:-2]
    pb = tgtprom.split('.')[:-1]
    k = 0
    while k < len(pa) and k < len(pb) and pa[k] == pb[k]:
        k += 1
    return '.'.join(pa[:k])
