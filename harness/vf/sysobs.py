"""Observation of real OpenMDAO problems built from model descriptions, in the form judged by spec/sys/OMJudge.tla."""
import math
from fractions import Fraction as F

import numpy as np

from . import modelgen as mg
from . import ombuild as ob

NANQ = [0, 0]
IMAX = 2 ** 30


def rj(x):
    x = F(x)
    if abs(x.numerator) >= IMAX or x.denominator >= IMAX:
        return NANQ
    return [x.numerator, x.denominator]


def quant(x, e, tol):
    """observed float -> exact rational for TLC.  e: the harness reference value (a hint only: TLC recomputes its own
    expectation); within tolerance of the hint the hint itself is emitted, otherwise the nearest small rational, or the
    NaN marker when the float is not close to any (a garbage value is rejected by TLC, never rounded silently)."""
    x = float(x)
    if not math.isfinite(x):
        return NANQ
    if e is not None and abs(x - float(e)) <= tol:
        return rj(e)
    q = F(x).limit_denominator(4096)
    if abs(float(q) - x) <= tol:
        return rj(q)
    return NANQ


def qvec(xs, es, rtol=1e-9):
    xs = np.asarray(xs, dtype=float).ravel()
    es = list(es)
    scale = max([1.0] + [abs(float(e)) for e in es if e is not None] + [abs(float(x)) for x in xs if math.isfinite(x)])
    tol = rtol * scale
    if len(xs) != len(es):
        return [NANQ] * max(len(es), 1)
    return [quant(x, e, tol) for x, e in zip(xs, es)]


def term_json(t):
    return t


def semiflat(md):
    """the record M of OMModel.tla (1-based ids, components in evaluation order)"""
    order = mg.eval_order(md)
    cpos = {cid: k + 1 for k, cid in enumerate(order)}
    outs = [{'shape': list(o['shape']), 'comp': cpos[o['comp']], 'val': [rj(mg.fr(v)) for v in o['val']]}
            for o in md['outs']]
    ins = [{'src': i['src'] + 1,
            'chain': [{'idx': l['idx'], 'shape': list(l['shape']), 'flat': bool(l['flat'])} for l in i['chain']],
            'fac': rj(mg.fr(i['fac'])), 'off': rj(mg.fr(i['off']))} for i in md['ins']]
    comps = []
    for cid in order:
        c = md['comps'][cid]
        comps.append({'kind': c['kind'], 'ins': [i + 1 for i in c['ins']], 'outs': [o + 1 for o in c['outs']],
                      'A': [[[[rj(mg.fr(a)) for a in row] for row in blk] for blk in rowA] for rowA in c['A']],
                      'b': [[rj(mg.fr(v)) for v in b] for b in c['b']],
                      'd': [[rj(mg.fr(v)) for v in d] for d in c['d']]})
    return {'outs': outs, 'ins': ins, 'comps': comps,
            'cyclic': bool(md.get('cycle')) or any(c['kind'] == 'bil' for c in md['comps'])}


def voi_record(md, v):
    s, a = mg.voi_scaler_adder(v)
    idx = v.get('indices_term')
    return {'out': v['oid'] + 1, 'idx': idx if idx is not None else {'k': 'none'}, 'flat': bool(v.get('flat_indices')),
            'scaler': rj(s), 'adder': rj(a)}


def ref_full(md, ref):
    """reference d(all outputs)/d(independent scalars) in the dY layout of OMModel (per output: rows x columns)"""
    off = ref['off']
    return [[list(ref['J'][r]) for r in range(off[o], off[o + 1])] for o in range(len(md['outs']))]


def voi_positions(md, v):
    o = md['outs'][v['oid']]
    if v.get('indices_term') is None:
        return list(range(int(np.prod(o['shape']))))
    return mg.np_positions(v['indices_term'], o['shape'], bool(v.get('flat_indices')))[0]


def ivc_col_base(md):
    base, n = {}, 0
    for oid in md['comps'][0]['outs']:
        base[oid] = n
        n += int(np.prod(md['outs'][oid]['shape']))
    return base, n


def ref_block(md, ref, of, wrt, scaled):
    full = ref_full(md, ref)
    base, _ = ivc_col_base(md)
    rp, cp = voi_positions(md, of), voi_positions(md, wrt)
    so, _ = mg.voi_scaler_adder(of)
    sw, _ = mg.voi_scaler_adder(wrt)
    blk = [[full[of['oid']][r][base[wrt['oid']] + c] for c in cp] for r in rp]
    if scaled:
        blk = [[x * so / sw for x in row] for row in blk]
    return blk


def observe_run(p, md, ref):
    out = [qvec(p.get_val(ob.out_path(md, o['id'])), ref['out'][o['id']]) for o in md['outs']]
    inp = [qvec(p.get_val(ob.in_path(md, i['id']), from_src=False), ref['in'][i['id']]) for i in md['ins']]
    return {'out': out, 'inp': inp}


def observe_full(p, md, ref, rtol=1e-9):
    """d(all outputs)/d(all independent scalars) from a problem built WITHOUT declared variables of interest
    (explicit of/wrt names that are declared design variables/responses would inherit their indices)"""
    ofn = [ob.out_path(md, o['id']) for o in md['outs']]
    wrtn = [ob.out_path(md, oid) for oid in md['comps'][0]['outs']]
    J = p.compute_totals(of=ofn, wrt=wrtn, return_format='flat_dict')
    rfull = ref_full(md, ref)
    full = []
    for o in md['outs']:
        n = int(np.prod(o['shape']))
        blocks = [np.atleast_2d(J[ofn[o['id']], w]).reshape(n, -1) for w in wrtn]
        mat = np.concatenate(blocks, axis=1)
        es = [x for row in rfull[o['id']] for x in row]
        q = qvec(mat.ravel(), es, rtol)
        nc = mat.shape[1]
        full.append([q[r * nc:(r + 1) * nc] for r in range(n)])
    return full


def observe_blocks(p, md, ref, scaled, return_format='flat_dict', rtol=1e-9, permute=False):
    """blocks of the declared variables of interest from compute_totals() of a problem built WITH them.
    permute: ask for the driver's own variables explicitly, the design variables in reversed order"""
    blocks = []
    if md['desvars'] and md['responses']:
        ofs = [r['name'] or ob.out_path(md, r['oid']) for r in md['responses']]
        wrts = [d['name'] or ob.out_path(md, d['oid']) for d in md['desvars']]
        permute = permute and len(set(wrts)) == len(wrts) and len(set(ofs)) == len(ofs) and len(wrts) > 1
        if permute:
            p.compute_totals(driver_scaling=scaled, return_format=return_format)     # (a declared coloring is computed here)
            Jv = p.compute_totals(of=ofs, wrt=wrts[::-1], driver_scaling=scaled, return_format=return_format)
        else:
            Jv = p.compute_totals(driver_scaling=scaled, return_format=return_format)
        if return_format == 'array':
            rsz = [len(voi_positions(md, r)) for r in md['responses']]
            csz = [len(voi_positions(md, d)) for d in md['desvars']]
            ro = np.concatenate([[0], np.cumsum(rsz)]).astype(int)
            if permute:
                # columns follow the requested (reversed) order
                rco = np.concatenate([[0], np.cumsum(csz[::-1])]).astype(int)
                nb = len(csz)
                co = np.zeros(nb + 1, dtype=int)
                cw = {b: (rco[nb - 1 - b], rco[nb - b]) for b in range(nb)}
            else:
                co = np.concatenate([[0], np.cumsum(csz)]).astype(int)
                cw = {b: (co[b], co[b + 1]) for b in range(len(csz))}
        for a, r in enumerate(md['responses']):
            for b, d in enumerate(md['desvars']):
                if return_format == 'flat_dict':
                    m = Jv[ofs[a], wrts[b]]
                elif return_format == 'dict':
                    m = Jv[ofs[a]][wrts[b]]
                else:
                    m = Jv[ro[a]:ro[a + 1], cw[b][0]:cw[b][1]]
                eb = ref_block(md, ref, r, d, scaled)
                nr, nc = len(eb), len(eb[0]) if eb else 0
                m = np.atleast_2d(m)
                if m.shape != (nr, nc):
                    q = [NANQ] * (nr * nc)
                else:
                    q = qvec(m.ravel(), [x for row in eb for x in row], rtol)
                blocks.append({'of': a + 1, 'wrt': b + 1, 'm': [q[i * nc:(i + 1) * nc] for i in range(nr)]})
    return blocks


def without_vois(md):
    m = dict(md)
    m['desvars'], m['responses'] = [], []
    return m


def case_record(md, ref, runs, cfgs, adj=None, jv=None, rel=None):
    return {'M': semiflat(md),
            'ref': {'out': [[rj(x) for x in v] for v in ref['out']],
                    'full': [[[rj(x) for x in row] for row in m] for m in ref_full(md, ref)]},
            'vois': {'of': [voi_record(md, r) for r in md['responses']] or [{'out': 1, 'idx': {'k': 'none'}, 'flat': False, 'scaler': [1, 1], 'adder': [0, 1]}],
                     'wrt': [voi_record(md, d) for d in md['desvars']] or [{'out': 1, 'idx': {'k': 'none'}, 'flat': False, 'scaler': [1, 1], 'adder': [0, 1]}]},
            'runs': runs, 'cfgs': cfgs, 'adj': adj or [], 'jv': jv or [], 'rel': rel or []}
